package main

import (
	"bytes"
	"encoding/json"
	"errors"
	"fmt"
	"io"
	"unicode/utf8"

	"github.com/ichiban/prolog/engine"

	"verif/internal/proto"
	"verif/internal/term"
)

// Kind "roundtrip" (property C06): for every term of the payload and every requested write mode, the term
// is written by the real output predicate into a host sink, the bytes W are kept, and W + " ." is read
// back by the real input predicate from a fresh host stream in the SAME interpreter (same operator table,
// same flags). The worker only reports what it saw (text, tree of the term read, or the error); the
// comparison is the controller's. Numbers additionally go through number_chars/2 and number_codes/2 in
// both directions. Only the public API is used: engine.Call on goals built from terms, host streams.
func init() { kinds["roundtrip"] = runRoundTrip }

// write modes
const (
	rtWriteq = iota
	rtWriteCanonical
	rtQuoted
	rtQuotedIgnoreOps
	rtQuotedVariableNames // write_term(T, [quoted(true), variable_names([Name=Var, ...])]) naming every variable of T
	rtModes
)

type rtPayload struct {
	Dirs    []rtOp       `json:"dirs,omitempty"` // op(P, Spec, Name) goals called in order before anything else
	Terms   []rtTerm     `json:"terms,omitempty"`
	Nums    []*term.Term `json:"nums,omitempty"`
	WantOps bool         `json:"want_ops,omitempty"`
}

type rtTerm struct {
	T     *term.Term `json:"t"`
	Modes int        `json:"modes"` // bit m set = run write mode m
	V     int        `json:"v"`     // selects which of the equivalent predicates write and read (stream argument or not, read/read_term)
}

// rtObs is the observation of one (term, mode) pair.
type rtObs struct {
	Mode   int        `json:"mode"`
	Via    string     `json:"via"`              // the predicates used, e.g. "writeq/1 read_term/3"
	W      string     `json:"w"`                // text written
	WB     []byte     `json:"wb,omitempty"`     // the same as bytes when it is not valid UTF-8
	WErr   *proto.Err `json:"werr,omitempty"`   // the output predicate raised / failed
	R      *term.Term `json:"r,omitempty"`      // term read back
	RErr   *proto.Err `json:"rerr,omitempty"`   // the input predicate raised / failed
	Budget bool       `json:"budget,omitempty"` // step budget / guard hit
}

type rtNum struct {
	Chars    *term.Term `json:"chars,omitempty"` // number_chars(N, Cs): Cs
	CharsN   *term.Term `json:"chars_n,omitempty"`
	CharsErr *proto.Err `json:"chars_err,omitempty"`
	Codes    *term.Term `json:"codes,omitempty"`
	CodesN   *term.Term `json:"codes_n,omitempty"`
	CodesErr *proto.Err `json:"codes_err,omitempty"`
}

type rtOp struct {
	P    int64  `json:"p"`
	Spec string `json:"spec"`
	Name string `json:"name"`
}

type rtResult struct {
	DirErrs []*proto.Err `json:"dir_errs,omitempty"` // one per directive (nil = ok)
	Ops     []rtOp       `json:"ops,omitempty"`
	Terms   [][]rtObs    `json:"terms,omitempty"`
	Nums    []rtNum      `json:"nums,omitempty"`
}

// guardReader serves data, then io.EOF a few times, then a hard error: a reader that is polled for ever
// at end of input (a parser that lost its end token) then stops instead of spinning.
type guardReader struct {
	b    []byte
	i    int
	eofs int
}

var errGuard = errors.New("verif: input polled repeatedly after end of file")

func (r *guardReader) Read(p []byte) (int, error) {
	if r.i >= len(r.b) {
		r.eofs++
		if r.eofs > 16 {
			return 0, errGuard
		}
		return 0, io.EOF
	}
	n := copy(p, r.b[r.i:])
	r.i += n
	return n, nil
}

type rtSession struct {
	*session
	sink bytes.Buffer // what user_output receives
}

// solve runs goal once; onSuccess sees the environment of the first solution.
func (s *rtSession) solve(goal engine.Term, onSuccess func(env *engine.Env)) (perr *proto.Err, budget bool) {
	ctx, cancel := s.begin(200_000)
	defer cancel()
	defer func() {
		if r := recover(); r != nil {
			perr = &proto.Err{Text: fmt.Sprintf("panic: %v", r), GoType: "panic"}
		}
	}()
	curConv = s.cv
	ok, err := engine.Call(&s.p.VM, goal, func(env *engine.Env) *engine.Promise {
		if onSuccess != nil {
			onSuccess(env)
		}
		return engine.Bool(true)
	}, nil).Force(ctx)
	budget = curState().hit || ctx.Err() != nil
	if err != nil {
		return errOf(s.cv, err), budget
	}
	if !ok {
		return &proto.Err{Text: "goal failed", GoType: "failure"}, budget
	}
	return nil, budget
}

func atom(s string) engine.Term { return engine.NewAtom(s) }

func cmp(name string, args ...engine.Term) engine.Term { return engine.NewAtom(name).Apply(args...) }

func (s *rtSession) roundTrip(t engine.Term, mode, variant int) rtObs {
	o := rtObs{Mode: mode}
	// ---- write ----
	var buf bytes.Buffer
	explicit := variant&1 == 1 // explicit stream argument, else current output
	var goal engine.Term
	var name string
	var extra []engine.Term
	switch mode {
	case rtWriteq:
		name = "writeq"
	case rtWriteCanonical:
		name = "write_canonical"
	case rtQuoted:
		name = "write_term"
		extra = []engine.Term{engine.List(cmp("quoted", atom("true")))}
	case rtQuotedIgnoreOps:
		name = "write_term"
		extra = []engine.Term{engine.List(cmp("quoted", atom("true")), cmp("ignore_ops", atom("true")))}
	default:
		name = "write_term"
		var vns []engine.Term
		for i, v := range termVars(t, nil) {
			vns = append(vns, cmp("=", atom(varName(i)), v))
		}
		extra = []engine.Term{engine.List(cmp("quoted", atom("true")), cmp("variable_names", engine.List(vns...)))}
	}
	args := append([]engine.Term{t}, extra...)
	if explicit {
		args = append([]engine.Term{engine.NewOutputTextStream(&buf)}, args...)
	}
	goal = cmp(name, args...)
	o.Via = fmt.Sprintf("%s/%d", name, len(args))
	s.sink.Reset()
	var b1 bool
	o.WErr, b1 = s.solve(goal, nil)
	w := buf.Bytes()
	if !explicit {
		w = append([]byte(nil), s.sink.Bytes()...)
	}
	if utf8.Valid(w) {
		o.W = string(w)
	} else {
		o.WB = w
	}
	if o.WErr != nil {
		o.Budget = b1
		return o
	}
	// ---- read back in the same interpreter ----
	in := engine.NewInputTextStream(&guardReader{b: append(append([]byte(nil), w...), " ."...)})
	x := engine.NewVariable()
	switch (variant >> 1) & 3 {
	case 0:
		goal = cmp("read_term", in, x, engine.List())
	case 1:
		goal = cmp("read", in, x)
	case 2:
		s.p.SetUserInput(in)
		goal = cmp("read_term", x, engine.List())
	default:
		s.p.SetUserInput(in)
		goal = cmp("read", x)
	}
	if c, ok := goal.(engine.Compound); ok {
		o.Via += fmt.Sprintf(" %s/%d", c.Functor().String(), c.Arity())
	}
	var b2 bool
	o.RErr, b2 = s.solve(goal, func(env *engine.Env) { o.R = s.cv.toTree(x, env) })
	o.Budget = b1 || b2
	return o
}

// termVars lists the variables of t in first-occurrence order.
func termVars(t engine.Term, out []engine.Variable) []engine.Variable {
	switch x := t.(type) {
	case engine.Variable:
		for _, v := range out {
			if v == x {
				return out
			}
		}
		return append(out, x)
	case engine.Compound:
		for i := 0; i < x.Arity(); i++ {
			out = termVars(x.Arg(i), out)
		}
	}
	return out
}

// varName gives distinct valid variable names of several lexical shapes.
func varName(i int) string {
	names := []string{"X", "Y", "_A", "Abc", "Z1", "_1", "Éa", "A_b", "__"}
	if i < len(names) {
		return names[i]
	}
	return fmt.Sprintf("V%d", i)
}

func (s *rtSession) number(n engine.Term) rtNum {
	var r rtNum
	cs, m := engine.NewVariable(), engine.NewVariable()
	r.CharsErr, _ = s.solve(cmp(",", cmp("number_chars", n, cs), cmp("number_chars", m, cs)), func(env *engine.Env) {
		r.Chars, r.CharsN = s.cv.toTree(cs, env), s.cv.toTree(m, env)
	})
	ds, k := engine.NewVariable(), engine.NewVariable()
	r.CodesErr, _ = s.solve(cmp(",", cmp("number_codes", n, ds), cmp("number_codes", k, ds)), func(env *engine.Env) {
		r.Codes, r.CodesN = s.cv.toTree(ds, env), s.cv.toTree(k, env)
	})
	return r
}

func (s *rtSession) currentOps() []rtOp {
	var ops []rtOp
	p, sp, n := engine.NewVariable(), engine.NewVariable(), engine.NewVariable()
	ctx, cancel := s.begin(0)
	defer cancel()
	_, _ = engine.CurrentOp(&s.p.VM, p, sp, n, func(env *engine.Env) *engine.Promise {
		pi, _ := env.Resolve(p).(engine.Integer)
		sa, _ := env.Resolve(sp).(engine.Atom)
		na, _ := env.Resolve(n).(engine.Atom)
		ops = append(ops, rtOp{P: int64(pi), Spec: sa.String(), Name: na.String()})
		return engine.Bool(false) // next one
	}, nil).Force(ctx)
	return ops
}

func runRoundTrip(c *proto.Case) *proto.Result {
	res := &proto.Result{}
	var p rtPayload
	if err := json.Unmarshal(c.P, &p); err != nil {
		res.Fatal = "roundtrip payload: " + err.Error()
		return res
	}
	s := &rtSession{session: newSession(c)}
	counters = &proto.Counters{}
	defer func() { counters = nil }()
	installHooks()
	defer uninstallHooks()
	s.p.SetUserOutput(engine.NewOutputTextStream(&s.sink))
	for _, text := range c.Setup {
		ctx, cancel := s.begin(0)
		err := s.p.ExecContext(ctx, text)
		cancel()
		res.Setup = append(res.Setup, errOf(s.cv, err))
	}
	var out rtResult
	for _, d := range p.Dirs {
		// the directive is called as a term: the reader is not involved in building the operator table
		e, _ := s.solve(cmp("op", engine.Integer(d.P), atom(d.Spec), atom(d.Name)), nil)
		out.DirErrs = append(out.DirErrs, e)
	}
	if p.WantOps {
		out.Ops = s.currentOps()
	}
	for _, jt := range p.Terms {
		// a fresh conversion context per term: variable ids of the payload are local to a term
		s.cv = newConv()
		t := s.cv.fromTree(jt.T)
		var obs []rtObs
		for m := 0; m < rtModes; m++ {
			if jt.Modes&(1<<m) == 0 {
				continue
			}
			obs = append(obs, s.roundTrip(t, m, jt.V+m*3))
		}
		out.Terms = append(out.Terms, obs)
	}
	for _, n := range p.Nums {
		s.cv = newConv()
		out.Nums = append(out.Nums, s.number(s.cv.fromTree(n)))
	}
	b, err := json.Marshal(&out)
	if err != nil {
		res.Fatal = "roundtrip result: " + err.Error()
		return res
	}
	res.R = b
	res.Counters = counters
	return res
}
