//go:build !verif

package main

import "verif/internal/proto"

// Without the verif hooks the environment tree cannot be inspected; the controller does not schedule
// envdriver cases then, and a stray one is reported as not executable.
func init() {
	kinds["envdriver"] = func(c *proto.Case) *proto.Result {
		return &proto.Result{Fatal: "envdriver needs the verif hooks (engine.VerifEnvCheck)"}
	}
}
