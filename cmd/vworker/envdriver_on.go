//go:build verif

package main

import (
	"encoding/json"
	"fmt"
	"math"
	"math/rand"
	"strings"

	"github.com/ichiban/prolog/engine"

	"verif/internal/proto"
)

// Kind "envdriver" (property C02, persistence of environments): a Go-level driver performs random
// env.Unify steps starting from randomly chosen RETAINED environments (a tree of versions, all kept
// alive) and after every step re-inspects every retained environment:
//   - engine.VerifEnvCheck: the in-order key sequence is strictly increasing (search-tree order: every
//     binding can be found); red-red edges / unequal black heights / a red root are balance anomalies:
//     they cost time, not correctness, and are counted and reported, not treated as a problem;
//   - its bindings (hook) are exactly those recorded when it was created;
//   - what Resolve (public API) answers for every pool variable is what it answered at creation.
// After a failed Unify the returned environment is dropped and the pre-attempt one must be unchanged.

func init() { kinds["envdriver"] = runEnvDriver }

type envDriverPayload struct {
	Seed   int64 `json:"seed"`
	Steps  int   `json:"steps"`
	Vars   int   `json:"vars"`   // pool size (default 200)
	Retain int   `json:"retain"` // retained environments (default 40)
	Sample int   `json:"sample"` // >0: besides parent and child only this many others are re-checked per step
}

type envDriverReport struct {
	Steps          int    `json:"steps"`
	Successes      int    `json:"successes"`
	Failures       int    `json:"failures"`
	SkippedCyclic  int    `json:"skipped_cyclic"`
	EnvsCreated    int    `json:"envs_created"`
	RetainedMax    int    `json:"retained_max"`
	MaxSize        int    `json:"max_size"`
	MaxBlackHeight int    `json:"max_black_height"`
	Checks         int64  `json:"checks"`
	Problem        string `json:"problem"`
	ProblemStep    int    `json:"problem_step"`
	// balance anomalies (red-red edge, unequal black heights, red root) among the environments created
	BalanceAnomalies int    `json:"balance_anomalies"`
	FirstAnomaly     string `json:"first_anomaly,omitempty"`
}

// rawHash hashes the structure of a term as stored (no dereferencing): FNV-1a over a pre-order walk.
func rawHash(h uint64, t engine.Term) uint64 {
	mix := func(h uint64, x uint64) uint64 {
		for i := 0; i < 8; i++ {
			h ^= x & 0xff
			h *= 1099511628211
			x >>= 8
		}
		return h
	}
	switch x := t.(type) {
	case engine.Variable:
		return mix(mix(h, 1), uint64(x))
	case engine.Atom:
		return mix(mix(h, 2), uint64(x))
	case engine.Integer:
		return mix(mix(h, 3), uint64(x))
	case engine.Float:
		return mix(mix(h, 4), math.Float64bits(float64(x)))
	case engine.Compound:
		h = mix(mix(mix(h, 5), uint64(x.Functor())), uint64(x.Arity()))
		for i := 0; i < x.Arity(); i++ {
			h = rawHash(h, x.Arg(i))
		}
		return h
	case nil:
		return mix(h, 6)
	default:
		return mix(h, 7)
	}
}

func rawText(t engine.Term, depth int) string {
	if depth > 6 {
		return "..."
	}
	switch x := t.(type) {
	case engine.Variable:
		return fmt.Sprintf("_%d", int64(x))
	case engine.Atom:
		return x.String()
	case engine.Integer:
		return fmt.Sprint(int64(x))
	case engine.Float:
		return fmt.Sprint(float64(x))
	case engine.Compound:
		s := x.Functor().String() + "("
		for i := 0; i < x.Arity(); i++ {
			if i > 0 {
				s += ","
			}
			s += rawText(x.Arg(i), depth+1)
		}
		return s + ")"
	}
	return fmt.Sprintf("%T", t)
}

type envBind struct {
	key int64
	h   uint64
}

type envNode struct {
	id      int
	env     *engine.Env
	size    int
	bh      int
	binds   []envBind // hook view at creation
	resolve []uint64  // public view at creation: hash of Resolve(v) for every pool variable
}

type envDriver struct {
	r    *rand.Rand
	vars []engine.Variable
	rep  envDriverReport
}

// orderProblem reports a violation of the search-tree order: VerifEnvCheck lists the bindings in order.
func orderProblem(info *engine.VerifEnvInfo) string {
	for i := 1; i < len(info.Bindings); i++ {
		if info.Bindings[i-1].Key >= info.Bindings[i].Key {
			return fmt.Sprintf("key %d follows key %d in the in-order walk: the search-tree order is broken, bindings cannot be found", info.Bindings[i].Key, info.Bindings[i-1].Key)
		}
	}
	if strings.Contains(info.Problem, "search-tree order") {
		return info.Problem
	}
	return ""
}

func (d *envDriver) snapshot(id int, env *engine.Env) (*envNode, string) {
	info := engine.VerifEnvCheck(env)
	if msg := orderProblem(&info); msg != "" {
		return nil, "new environment: " + msg
	}
	if info.Problem != "" {
		d.rep.BalanceAnomalies++
		if d.rep.FirstAnomaly == "" {
			d.rep.FirstAnomaly = fmt.Sprintf("environment #%d (size %d): %s", id, info.Size, info.Problem)
		}
	}
	n := &envNode{id: id, env: env, size: info.Size, bh: info.BlackHeight}
	n.binds = make([]envBind, len(info.Bindings))
	for i, b := range info.Bindings {
		n.binds[i] = envBind{b.Key, rawHash(14695981039346656037, b.Value)}
	}
	n.resolve = make([]uint64, len(d.vars))
	for i, v := range d.vars {
		n.resolve[i] = rawHash(14695981039346656037, env.Resolve(v))
	}
	if info.Size > d.rep.MaxSize {
		d.rep.MaxSize = info.Size
	}
	if info.BlackHeight > d.rep.MaxBlackHeight {
		d.rep.MaxBlackHeight = info.BlackHeight
	}
	return n, ""
}

// verify re-inspects a retained environment against its snapshot.
func (d *envDriver) verify(n *envNode) string {
	d.rep.Checks++
	info := engine.VerifEnvCheck(n.env)
	if msg := orderProblem(&info); msg != "" {
		return fmt.Sprintf("environment #%d: %s", n.id, msg)
	}
	if info.Size != n.size || info.BlackHeight != n.bh || len(info.Bindings) != len(n.binds) {
		return fmt.Sprintf("environment #%d changed after it was created: size %d -> %d, black height %d -> %d", n.id, n.size, info.Size, n.bh, info.BlackHeight)
	}
	for i, b := range info.Bindings {
		if b.Key != n.binds[i].key || rawHash(14695981039346656037, b.Value) != n.binds[i].h {
			return fmt.Sprintf("environment #%d changed after it was created: binding %d is now key %d -> %s", n.id, i, b.Key, rawText(b.Value, 0))
		}
	}
	for i, v := range d.vars {
		if rawHash(14695981039346656037, n.env.Resolve(v)) != n.resolve[i] {
			return fmt.Sprintf("environment #%d changed after it was created: Resolve(_%d) is now %s", n.id, int64(v), rawText(n.env.Resolve(v), 0))
		}
	}
	return ""
}

func (d *envDriver) v() engine.Term {
	// a hot subset makes chains and conflicts likely
	if d.r.Intn(3) == 0 {
		return d.vars[d.r.Intn(24)]
	}
	return d.vars[d.r.Intn(len(d.vars))]
}

var envAtoms = []engine.Term{engine.NewAtom("a"), engine.NewAtom("b"), engine.NewAtom("c"), engine.Integer(0), engine.Integer(1), engine.Float(1.5)}

func (d *envDriver) term(depth int) engine.Term {
	k := d.r.Intn(100)
	switch {
	case k < 45 || depth <= 0 && k < 70:
		return d.v()
	case k < 60 || depth <= 0:
		return envAtoms[d.r.Intn(len(envAtoms))]
	case k < 72:
		return engine.NewAtom("f").Apply(d.term(depth-1), d.term(depth-1))
	case k < 80:
		return engine.NewAtom("g").Apply(d.term(depth - 1))
	case k < 88:
		return engine.List(d.term(depth-1), d.term(depth-1))
	case k < 95:
		return engine.PartialList(d.v(), d.term(depth-1))
	case k < 98:
		return engine.CharList("ab")
	default:
		return engine.NewAtom("f").Apply(d.term(depth-1), d.term(depth-1), d.term(depth-1))
	}
}

// wouldCycle simulates the unification on top of env with an occurs check and reports whether any
// positive occurs check is met (also past clashes): such steps are not performed, because Env.Unify has
// no occurs check and the driver must not build cyclic bindings.
type envSim struct {
	env  *engine.Env
	over map[engine.Variable]engine.Term
	cyc  bool
}

func (s *envSim) walk(t engine.Term) engine.Term {
	for {
		t = s.env.Resolve(t)
		v, ok := t.(engine.Variable)
		if !ok {
			return t
		}
		b, ok := s.over[v]
		if !ok {
			return t
		}
		t = b
	}
}

func (s *envSim) occurs(v engine.Variable, t engine.Term) bool {
	t = s.walk(t)
	switch x := t.(type) {
	case engine.Variable:
		return x == v
	case engine.Compound:
		for i := 0; i < x.Arity(); i++ {
			if s.occurs(v, x.Arg(i)) {
				return true
			}
		}
	}
	return false
}

func (s *envSim) unify(x, y engine.Term) {
	x, y = s.walk(x), s.walk(y)
	if vx, ok := x.(engine.Variable); ok {
		if vy, ok := y.(engine.Variable); ok && vx == vy {
			return
		}
		if s.occurs(vx, y) {
			s.cyc = true
			return
		}
		s.over[vx] = y
		return
	}
	if vy, ok := y.(engine.Variable); ok {
		if s.occurs(vy, x) {
			s.cyc = true
			return
		}
		s.over[vy] = x
		return
	}
	cx, ok1 := x.(engine.Compound)
	cy, ok2 := y.(engine.Compound)
	if ok1 && ok2 && cx.Functor() == cy.Functor() && cx.Arity() == cy.Arity() {
		for i := 0; i < cx.Arity() && !s.cyc; i++ {
			s.unify(cx.Arg(i), cy.Arg(i))
		}
	}
}

// identical: are x and y the same term under env (what == must say after a successful unification)?
func identical(env *engine.Env, x, y engine.Term, depth int) bool {
	if depth > 200 {
		return false
	}
	x, y = env.Resolve(x), env.Resolve(y)
	cx, ok1 := x.(engine.Compound)
	cy, ok2 := y.(engine.Compound)
	if ok1 != ok2 {
		return false
	}
	if !ok1 {
		return x == y
	}
	if cx.Functor() != cy.Functor() || cx.Arity() != cy.Arity() {
		return false
	}
	for i := 0; i < cx.Arity(); i++ {
		if !identical(env, cx.Arg(i), cy.Arg(i), depth+1) {
			return false
		}
	}
	return true
}

func runEnvDriver(c *proto.Case) *proto.Result {
	var p envDriverPayload
	if err := json.Unmarshal(c.P, &p); err != nil {
		return &proto.Result{Fatal: "envdriver payload: " + err.Error()}
	}
	if p.Vars <= 0 {
		p.Vars = 200
	}
	if p.Retain <= 0 {
		p.Retain = 40
	}
	d := &envDriver{r: rand.New(rand.NewSource(p.Seed))}
	d.vars = make([]engine.Variable, p.Vars)
	for i := range d.vars {
		d.vars[i] = engine.NewVariable()
	}
	fail := func(step int, msg string) *proto.Result {
		d.rep.Problem, d.rep.ProblemStep = msg, step
		b, _ := json.Marshal(&d.rep)
		return &proto.Result{R: b}
	}
	root, msg := d.snapshot(0, engine.NewEnv())
	if msg != "" {
		return fail(0, msg)
	}
	retained := []*envNode{root}
	d.rep.EnvsCreated = 1
	rot := 0
	for step := 1; step <= p.Steps; step++ {
		d.rep.Steps = step
		var parent *envNode
		if d.r.Intn(2) == 0 {
			parent = retained[len(retained)-1]
		} else {
			parent = retained[d.r.Intn(len(retained))]
		}
		x, y := d.term(2), d.term(2)
		sim := &envSim{env: parent.env, over: map[engine.Variable]engine.Term{}}
		sim.unify(x, y)
		if sim.cyc {
			d.rep.SkippedCyclic++
			continue
		}
		child, ok := parent.env.Unify(x, y)
		var fresh *envNode
		if ok {
			d.rep.Successes++
			if !identical(child, x, y, 0) {
				return fail(step, fmt.Sprintf("Unify(%s, %s) from environment #%d reported success but the two terms are not identical in the returned environment", rawText(x, 0), rawText(y, 0), parent.id))
			}
			n, msg := d.snapshot(d.rep.EnvsCreated, child)
			if msg != "" {
				return fail(step, fmt.Sprintf("after Unify(%s, %s) from environment #%d: %s", rawText(x, 0), rawText(y, 0), parent.id, msg))
			}
			d.rep.EnvsCreated++
			// the child extends the parent: whatever the parent resolved to a non-variable stays
			for i, v := range d.vars {
				if _, isVar := parent.env.Resolve(v).(engine.Variable); !isVar && n.resolve[i] != parent.resolve[i] {
					return fail(step, fmt.Sprintf("after Unify(%s, %s) from environment #%d: the binding of _%d visible in the parent is lost or changed in the new environment", rawText(x, 0), rawText(y, 0), parent.id, int64(v)))
				}
			}
			if n.size < parent.size {
				return fail(step, fmt.Sprintf("after a successful Unify from environment #%d (size %d) the new environment has only %d bindings", parent.id, parent.size, n.size))
			}
			fresh = n
		} else {
			d.rep.Failures++ // the returned environment is dropped by design
		}
		// re-inspect the retained versions
		if msg := d.verify(parent); msg != "" {
			return fail(step, fmt.Sprintf("after Unify(%s, %s) = %v from environment #%d: %s", rawText(x, 0), rawText(y, 0), ok, parent.id, msg))
		}
		if p.Sample > 0 {
			for i := 0; i < p.Sample && i < len(retained); i++ {
				rot = (rot + 1) % len(retained)
				if msg := d.verify(retained[rot]); msg != "" {
					return fail(step, fmt.Sprintf("after Unify(%s, %s) = %v from environment #%d: %s", rawText(x, 0), rawText(y, 0), ok, parent.id, msg))
				}
			}
		} else {
			for _, n := range retained {
				if n == parent {
					continue
				}
				if msg := d.verify(n); msg != "" {
					return fail(step, fmt.Sprintf("after Unify(%s, %s) = %v from environment #%d: %s", rawText(x, 0), rawText(y, 0), ok, parent.id, msg))
				}
			}
		}
		if fresh != nil {
			retained = append(retained, fresh)
			if len(retained) > p.Retain {
				// forget a random version (never the empty root)
				i := 1 + d.r.Intn(len(retained)-1)
				retained = append(retained[:i], retained[i+1:]...)
			}
			if len(retained) > d.rep.RetainedMax {
				d.rep.RetainedMax = len(retained)
			}
		}
	}
	// final pass over everything
	for _, n := range retained {
		if msg := d.verify(n); msg != "" {
			return fail(p.Steps, "final pass: "+msg)
		}
	}
	b, _ := json.Marshal(&d.rep)
	return &proto.Result{R: b}
}
