// vworker executes cases against the real ichiban/prolog built from the tree named by the go.mod replace
// directive. It is the only program in /verif that links the code under test.
package main

import (
	"bufio"
	"encoding/json"
	"fmt"
	"io"
	"os"
	"runtime/debug"
	"time"

	"verif/internal/proto"
)

var kinds = map[string]func(c *proto.Case) *proto.Result{}

func main() {
	debug.SetMaxStack(256 << 20)
	// Read the whole batch first: no goroutine may sit in a read while the deadlock detector is an oracle.
	data, err := io.ReadAll(os.Stdin)
	if err != nil {
		fmt.Fprintln(os.Stderr, "vworker: read:", err)
		os.Exit(3)
	}
	dir, err := os.MkdirTemp("", "vworker-")
	if err != nil {
		fmt.Fprintln(os.Stderr, "vworker: tmp:", err)
		os.Exit(3)
	}
	defer os.RemoveAll(dir)
	scratch = dir
	if err := os.Chdir(dir); err != nil {
		fmt.Fprintln(os.Stderr, "vworker: chdir:", err)
		os.Exit(3)
	}

	out := os.Stdout
	sc := bufio.NewScanner(bytesReader(data))
	sc.Buffer(make([]byte, 1<<20), 1<<28)
	for sc.Scan() {
		line := sc.Bytes()
		if len(line) == 0 {
			continue
		}
		var c proto.Case
		if err := json.Unmarshal(line, &c); err != nil {
			fmt.Fprintln(os.Stderr, "vworker: bad case:", err)
			os.RemoveAll(dir)
			os.Exit(3)
		}
		// BEGIN marker lets the controller attribute a process death to this case.
		fmt.Fprintf(out, "BEGIN %s\n", c.ID)
		t0 := time.Now()
		f, ok := kinds[c.Kind]
		var r *proto.Result
		if !ok {
			r = &proto.Result{ID: c.ID, Fatal: "unknown kind " + c.Kind}
		} else {
			r = f(&c)
		}
		r.ID = c.ID
		r.Hooks = hooksOn
		r.WallMS = time.Since(t0).Milliseconds()
		b, err := json.Marshal(r)
		if err != nil {
			b, _ = json.Marshal(&proto.Result{ID: c.ID, Fatal: "marshal: " + err.Error()})
		}
		out.Write(append(b, '\n'))
		cleanScratch()
	}
}

var scratch string

func cleanScratch() {
	es, _ := os.ReadDir(scratch)
	for _, e := range es {
		os.RemoveAll(scratch + "/" + e.Name())
	}
}

type sliceReader struct {
	b []byte
	i int
}

func (r *sliceReader) Read(p []byte) (int, error) {
	if r.i >= len(r.b) {
		return 0, io.EOF
	}
	n := copy(p, r.b[r.i:])
	r.i += n
	return n, nil
}

func bytesReader(b []byte) io.Reader { return &sliceReader{b: b} }
