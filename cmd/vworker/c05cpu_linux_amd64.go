//go:build linux && amd64

package main

import (
	"syscall"
	"unsafe"
)

// c05SigDefault restores the default disposition (terminate) of a signal. The Go runtime installs a handler for
// every signal and ignores SIGXCPU; os/signal could catch it, but an active signal.Notify switches the runtime's
// deadlock detector off, which C05 uses as its oracle for "blocks".
func c05SigDefault(sig syscall.Signal) error {
	var sa struct {
		handler  uintptr // 0 = SIG_DFL
		flags    uint64
		restorer uintptr
		mask     uint64
	}
	if _, _, e := syscall.RawSyscall6(syscall.SYS_RT_SIGACTION, uintptr(sig), uintptr(unsafe.Pointer(&sa)), 0, 8, 0, 0); e != 0 {
		return e
	}
	return nil
}
