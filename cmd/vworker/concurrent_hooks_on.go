//go:build verif

package main

import (
	"context"
	"runtime"
	"sync"

	"github.com/ichiban/prolog/engine"
)

// The concurrent kind (C14) must not share any monitor state between goroutines: a shared counter would be a
// race of its own, and an atomic one would add happens-before edges that hide races of the code under test.
// The state of the step hook therefore belongs to ONE API call and is reached only through that call's
// context; it is touched solely by the goroutine that runs Promise.Force for the call.

type concCallKey struct{}

type concCall struct {
	n      int64
	budget int64 // cancel the call after this many trampoline steps (0 = never)
	cancel context.CancelFunc
	next   int64 // step at which the next runtime.Gosched is injected (0 = never)
	mean   int64
	rng    uint64
}

func (st *concCall) rand() uint64 {
	st.rng ^= st.rng << 13
	st.rng ^= st.rng >> 7
	st.rng ^= st.rng << 17
	return st.rng
}

var concHookOnce sync.Once

// concInstallHook installs the step hook once per process, before any goroutine of a concurrent case exists.
// It is never removed: a query goroutine may still be returning from Force after Solutions.Close.
func concInstallHook() {
	concHookOnce.Do(func() {
		engine.VerifOnCut, engine.VerifOnRecover, engine.VerifOnOp = nil, nil, nil
		engine.VerifOnStep = func(ctx context.Context, depth int) {
			st, ok := ctx.Value(concCallKey{}).(*concCall)
			if !ok {
				return // bootstrap and nested calls that run under another context
			}
			st.n++
			if st.budget > 0 && st.n == st.budget {
				st.cancel()
			}
			if st.next > 0 && st.n >= st.next {
				st.next = st.n + 1 + int64(st.rand()%uint64(2*st.mean))
				runtime.Gosched()
			}
		}
	})
}

// concCallContext returns the context of one API call: a logical step budget and seed-determined yields.
func concCallContext(budget int64, schedMean int64, seed uint64) (context.Context, context.CancelFunc) {
	ctx, cancel := context.WithCancel(context.Background())
	st := &concCall{budget: budget, cancel: cancel, mean: schedMean, rng: seed | 1}
	if schedMean > 0 {
		st.next = 1 + int64(st.rand()%uint64(2*schedMean))
	}
	return context.WithValue(ctx, concCallKey{}, st), cancel
}
