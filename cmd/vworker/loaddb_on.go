//go:build verif

package main

import (
	"fmt"
	"sort"

	"github.com/ichiban/prolog/engine"

	"verif/internal/proto"
)

type dbBase map[string]engine.VerifProc

func dbKey(name string, arity int) string { return fmt.Sprintf("%s/%d", name, arity) }

// dbBaseline records the procedures of the freshly created interpreter (built-ins, bootstrap library).
func dbBaseline(s *session) dbBase {
	b := dbBase{}
	for _, p := range engine.VerifProcedures(&s.p.VM) {
		b[dbKey(p.Name, p.Arity)] = p
	}
	return b
}

// dbDump lists every procedure that is new or changed with respect to the baseline, sorted by name/arity.
func dbDump(s *session, base dbBase) []proto.DBProc {
	out := []proto.DBProc{}
	seen := map[string]bool{}
	for _, p := range engine.VerifProcedures(&s.p.VM) {
		k := dbKey(p.Name, p.Arity)
		seen[k] = true
		if b, ok := base[k]; ok && b == p {
			continue
		}
		d := proto.DBProc{Name: p.Name, Arity: p.Arity, User: p.User, Public: p.Public, Dynamic: p.Dynamic,
			Multifile: p.Multifile, Discontiguous: p.Discontiguous}
		if cs, ok := engine.VerifClauses(&s.p.VM, engine.NewAtom(p.Name), p.Arity); ok {
			for _, c := range cs {
				d.Clauses = append(d.Clauses, s.cv.toTree(c.Raw, nil))
			}
		}
		out = append(out, d)
	}
	for k, b := range base {
		if !seen[k] {
			out = append(out, proto.DBProc{Name: b.Name, Arity: b.Arity, Gone: true})
		}
	}
	sort.Slice(out, func(i, j int) bool {
		if out[i].Name != out[j].Name {
			return out[i].Name < out[j].Name
		}
		return out[i].Arity < out[j].Arity
	})
	return out
}
