//go:build !verif

package main

import "context"

func concInstallHook() {}

// Without the step hook there is no logical clock: calls run unbounded (the pool's watchdog, whose firing is
// only ever inconclusive, is the backstop) and no yields are injected.
func concCallContext(budget int64, schedMean int64, seed uint64) (context.Context, context.CancelFunc) {
	return context.WithCancel(context.Background())
}
