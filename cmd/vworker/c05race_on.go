//go:build race

package main

const c05Race = true
