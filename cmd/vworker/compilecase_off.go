//go:build !verif

package main

import "verif/internal/proto"

func init() {
	kinds["compile"] = func(c *proto.Case) *proto.Result {
		return &proto.Result{Fatal: "hooks unavailable: the compiled form cannot be observed"}
	}
}
