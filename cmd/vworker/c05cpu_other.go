//go:build !(linux && amd64)

package main

import (
	"errors"
	"syscall"
)

func c05SigDefault(sig syscall.Signal) error { return errors.New("not supported on this platform") }
