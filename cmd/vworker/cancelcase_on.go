//go:build verif

package main

import (
	"context"
	"runtime"

	"github.com/ichiban/prolog/engine"
)

// installClock makes the engine's step hook the logical clock of the experiment: the hook is called at the top
// of every iteration of every Promise.Force (nested ones included), before that iteration polls the context.
func (r *cancelRun) installClock() { engine.VerifOnStep = r.onStep }

func (r *cancelRun) removeClock() { engine.VerifOnStep = nil }

func (r *cancelRun) onStep(_ context.Context, depth int) {
	n := r.steps.Add(1)
	if r.returned.Load() {
		// the call has returned but something is still taking steps on its behalf
		r.stray.Add(1)
		if ca := r.cancelAt.Load(); ca >= 0 && n-ca > r.pl.Limit {
			r.abort("steps")
		}
		return
	}
	r.mu.Lock()
	yield, fire, wake, abort := r.step(n, depth)
	r.mu.Unlock()
	switch {
	case abort:
		r.abort("steps")
	case fire:
		r.fire()
	case wake:
		close(r.wake)
	}
	if yield {
		runtime.Gosched()
	}
}

// step advances the experiment by one tick of the logical clock (mu held) and says what the hook has to do.
func (r *cancelRun) step(n int64, depth int) (yield, fire, wake, abort bool) {
	if depth > r.maxDepth {
		r.maxDepth = depth
	}
	if g := r.pl.Gosched; g > 0 {
		r.rng ^= r.rng << 13
		r.rng ^= r.rng >> 7
		r.rng ^= r.rng << 17
		if int(r.rng%1000) < g {
			r.goscheds++
			yield = true
		}
	}
	ca := r.cancelAt.Load()
	if ca >= 0 {
		r.takeEvidence()
		abort = n-ca > r.pl.Limit
		return
	}
	switch r.pl.Mode {
	case "hook":
		if n == r.pl.N {
			// cancelled here, i.e. before the context poll of this very step
			r.stackDepth, r.forceDepth = depth, forceFrames()
			r.markCancel(n, true)
			fire = true
			return
		}
	case "async":
		if n == r.pl.N {
			r.stackDepth, r.forceDepth = depth, forceFrames()
			wake = true
		}
	case "timer":
		if r.ctx.Err() != nil {
			r.stackDepth, r.forceDepth = depth, forceFrames()
			r.markCancel(n, true)
			return
		}
	}
	if n >= r.pl.Budget && !r.budgetHit.Load() {
		// runaway that never reached its cancellation instant: stop it (reported, never judged)
		r.budgetHit.Store(true)
		r.markCancel(n, true)
		fire = true
	}
	return
}
