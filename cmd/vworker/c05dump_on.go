//go:build verif

package main

import (
	"encoding/json"
	"sort"
	"strings"

	"github.com/ichiban/prolog"
	"github.com/ichiban/prolog/engine"

	"verif/internal/proto"
)

// Kind "c05dump": the procedures of a freshly created interpreter, read from the running code.

func init() { kinds["c05dump"] = runC05Dump }

// C05Proc is one registered procedure.
type C05Proc struct {
	Name  string `json:"name"`
	Arity int    `json:"arity"`
	User  bool   `json:"user"` // defined by clauses (bootstrap.pl) rather than in Go
}

func runC05Dump(c *proto.Case) *proto.Result {
	p := prolog.New(strings.NewReader(""), nil)
	var out []C05Proc
	for _, vp := range engine.VerifProcedures(&p.VM) {
		out = append(out, C05Proc{Name: vp.Name, Arity: vp.Arity, User: vp.User})
	}
	sort.Slice(out, func(i, j int) bool {
		if out[i].Name != out[j].Name {
			return out[i].Name < out[j].Name
		}
		return out[i].Arity < out[j].Arity
	})
	res := &proto.Result{}
	res.R, _ = json.Marshal(out)
	return res
}

// c05LightHooks drops the per-instruction hook: C05 needs the step clock only, and bootstrapping an
// interpreter per call is the dominant cost of its workload.
func c05LightHooks() { engine.VerifOnOp = nil }
