//go:build race

package main

// raceEnabled reports whether this worker was built with the Go race detector (go build -race sets the tag).
const raceEnabled = true
