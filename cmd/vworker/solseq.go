package main

// Worker kind "solseq" (property C12): drives one or two Solutions of one fresh interpreter with a given
// sequence of Next/Scan/Err/Close calls, all issued from the main goroutine.
//
// While the calls are being issued this file starts no goroutine, timer or signal handler and stdin has been
// drained by main(): if a call can never return, every goroutine of the process is asleep and the Go runtime
// ends the process with "fatal error: all goroutines are asleep - deadlock!". That is the logical
// "blocks forever" oracle; the controller reads it from the stderr of the dead worker. A marker line written
// to stderr before every call tells the controller which call it was.

import (
	"context"
	"encoding/json"
	"errors"
	"fmt"
	"os"
	"regexp"
	"runtime"
	"strconv"
	"strings"
	"sync"
	"time"

	"github.com/ichiban/prolog"

	"verif/internal/proto"
)

func init() { kinds["solseq"] = runSolseq }

// lockedBuf is user_output. The mutex keeps the worker's own reads of the length apart from writes of a
// query goroutine that (wrongly) still runs, so that under -race only the library's races are reported.
type lockedBuf struct {
	mu sync.Mutex
	b  []byte
}

func (l *lockedBuf) Write(p []byte) (int, error) {
	l.mu.Lock()
	l.b = append(l.b, p...)
	l.mu.Unlock()
	return len(p), nil
}

// since returns the current length and (at most 64 of) the bytes written after position from.
func (l *lockedBuf) since(from int) (int, string) {
	l.mu.Lock()
	defer l.mu.Unlock()
	n := len(l.b)
	if from > n {
		from = n
	}
	d := l.b[from:]
	if len(d) > 64 {
		d = d[:64]
	}
	return n, string(d)
}

var goroutineHeader = regexp.MustCompile(`^goroutine (\d+) \[([^\]]*)\]:`)

// goroutines parses runtime.Stack(all).
func goroutines() []proto.SolSeqG {
	buf := make([]byte, 1<<16)
	for {
		n := runtime.Stack(buf, true)
		if n < len(buf) {
			buf = buf[:n]
			break
		}
		buf = make([]byte, 2*len(buf))
	}
	var gs []proto.SolSeqG
	for _, blk := range strings.Split(string(buf), "\n\n") {
		m := goroutineHeader.FindStringSubmatch(blk)
		if m == nil {
			continue
		}
		id, _ := strconv.ParseInt(m[1], 10, 64)
		state := m[2]
		if i := strings.IndexByte(state, ','); i >= 0 { // "chan receive, 2 minutes"
			state = state[:i]
		}
		if len(blk) > 1500 {
			blk = blk[:1500] + "…"
		}
		gs = append(gs, proto.SolSeqG{ID: id, State: state, Stack: blk})
	}
	return gs
}

// parked: the goroutine waits in a channel operation; nothing but another goroutine can wake it.
func parked(state string) bool {
	switch state {
	case "chan send", "chan receive", "select", "select (no cases)", "chan send (nil chan)", "chan receive (nil chan)":
		return true
	}
	return false
}

func newGoroutines(known map[int64]bool) (fresh []proto.SolSeqG, allParked bool) {
	allParked = true
	for _, g := range goroutines() {
		if known[g.ID] {
			continue
		}
		fresh = append(fresh, g)
		if !parked(g.State) {
			allParked = false
		}
	}
	return fresh, allParked
}

func runSolseq(c *proto.Case) *proto.Result {
	res := &proto.Result{}
	var p proto.SolSeq
	if err := json.Unmarshal(c.P, &p); err != nil {
		res.Fatal = "solseq payload: " + err.Error()
		return res
	}
	if len(p.Queries) == 0 || len(p.Queries) > 2 || len(p.Ops) != len(p.Queries) {
		res.Fatal = "solseq payload: need 1 or 2 queries and as many op strings"
		return res
	}
	name := p.Var
	if name == "" {
		name = "X"
	}
	order := p.Order
	if order == "" {
		order = strings.Repeat("A", len(p.Ops[0]))
		if len(p.Ops) == 2 {
			order += strings.Repeat("B", len(p.Ops[1]))
		}
	}

	out := &lockedBuf{}
	interp := prolog.New(strings.NewReader(""), out)
	cv := newConv()

	known := map[int64]bool{}
	for _, g := range goroutines() {
		known[g.ID] = true
	}
	var r proto.SolSeqResult
	r.G0 = runtime.NumGoroutine()

	sols := make([]*prolog.Solutions, len(p.Queries))
	single := make([]*prolog.Solution, len(p.Queries))
	reuse := make([]struct{ X interface{} }, len(p.Queries))
	ok := true
	for i, q := range p.Queries {
		if p.Solution {
			single[i] = interp.QuerySolutionContext(context.Background(), q)
			r.QueryErr = append(r.QueryErr, "")
			continue
		}
		s, err := interp.QueryContext(context.Background(), q)
		if err != nil {
			r.QueryErr = append(r.QueryErr, err.Error())
			ok = false
			continue
		}
		r.QueryErr = append(r.QueryErr, "")
		sols[i] = s
	}

	outLen, _ := out.since(0)
	closed := make([]bool, len(sols))
	call := func(si int, op byte, cleanup bool) {
		o := proto.SolSeqOp{Sol: si, Op: string(op), Cleanup: cleanup}
		fmt.Fprintf(os.Stderr, "solseq %s call %d %c%c\n", c.ID, len(r.Ops), 'A'+si, op)
		func() {
			defer func() {
				if x := recover(); x != nil {
					o.Panic = fmt.Sprint(x)
				}
			}()
			s := sols[si]
			var err error
			if p.Solution {
				switch op {
				case 'S':
					m := map[string]interface{}{}
					err = single[si].Scan(m)
					if v, present := m[name]; !present {
						o.Val = "absent"
					} else if b, jerr := json.Marshal(v); jerr != nil {
						o.Val = fmt.Sprintf("unencodable %T", v)
					} else {
						o.Val = string(b)
					}
				case 'E':
					err = single[si].Err()
				default:
					panic("solseq: a Solution has Scan and Err only")
				}
				if err == nil {
					o.Nil = true
				} else {
					o.Err = errOf(cv, err)
					o.Closed = errors.Is(err, prolog.ErrClosed)
				}
				return
			}
			switch op {
			case 'N':
				b := s.Next()
				o.Bool = &b
				return
			case 'S':
				m := map[string]interface{}{}
				err = s.Scan(m)
				if v, present := m[name]; !present {
					o.Val = "absent"
				} else if b, jerr := json.Marshal(v); jerr != nil {
					o.Val = fmt.Sprintf("unencodable %T", v)
				} else {
					o.Val = string(b)
					if name == "X" && err == nil {
						// once more, into the destination that received the earlier answers
						if rerr := s.Scan(&reuse[si]); rerr != nil {
							o.ValReuse = "error " + rerr.Error()
						} else if rb, jerr := json.Marshal(reuse[si].X); jerr != nil {
							o.ValReuse = fmt.Sprintf("unencodable %T", reuse[si].X)
						} else {
							o.ValReuse = string(rb)
						}
					}
				}
			case 'E':
				err = s.Err()
			case 'C':
				closed[si] = true
				err = s.Close()
			}
			if err == nil {
				o.Nil = true
			} else {
				o.Err = errOf(cv, err)
				o.Closed = errors.Is(err, prolog.ErrClosed)
			}
		}()
		o.OutLen, o.Out = out.since(outLen)
		outLen = o.OutLen
		r.Ops = append(r.Ops, o)
	}

	if ok {
		pos := make([]int, len(sols))
		for _, w := range []byte(order) {
			si := int(w - 'A')
			if si < 0 || si >= len(sols) || pos[si] >= len(p.Ops[si]) {
				res.Fatal = "solseq payload: order does not match the op strings"
				return res
			}
			call(si, p.Ops[si][pos[si]], false)
			pos[si]++
		}
		// Leave nothing open: a Solutions that the sequence did not close is closed now (reported as cleanup
		// calls; the sequence extended by Close is a sequence of the property's domain as well).
		for si := range sols {
			if !closed[si] && !p.Solution {
				call(si, 'C', true)
			}
		}
	} else {
		for _, s := range sols { // a query text was rejected: nothing is reported, nothing stays open
			if s != nil {
				_ = s.Close()
			}
		}
	}
	r.GOps = runtime.NumGoroutine()

	// Settle phase: every Solutions has been closed, so the query goroutines have to terminate. This wait is
	// not a verdict clock; it only gives a goroutine that is on its way out the time to get there. It ends as
	// soon as the count is back at the baseline, or as soon as every surviving goroutine is parked in a
	// channel operation (nobody is left to wake it: waiting longer cannot change anything).
	settled, stuck := false, false
	for r.Yields = 0; r.Yields < 10000 && !stuck; r.Yields++ {
		if runtime.NumGoroutine() <= r.G0 {
			settled = true
			break
		}
		if r.Yields%500 == 499 {
			_, stuck = newGoroutines(known)
		}
		runtime.Gosched()
	}
	for r.Sleeps = 0; r.Sleeps < 2000 && !settled && !stuck; r.Sleeps++ {
		if runtime.NumGoroutine() <= r.G0 {
			settled = true
			break
		}
		if r.Sleeps%20 == 0 {
			_, stuck = newGoroutines(known)
		}
		time.Sleep(time.Millisecond)
	}
	r.GFinal = runtime.NumGoroutine()
	restart := false
	if !settled {
		var all bool
		r.New, all = newGoroutines(known)
		restart = !all || len(known)+len(r.New) > 16
	}
	r.OutLen, r.LateOut = out.since(outLen)

	b, err := json.Marshal(&r)
	if err != nil {
		res.Fatal = "solseq marshal: " + err.Error()
		return res
	}
	res.R = b
	if restart {
		// A surviving goroutine that still runs would defeat the deadlock detector for the following cases,
		// and parked ones pile up (every goroutine dump then costs more): report this case and end the
		// process; the pool runs the rest of the batch in a new process.
		res.ID = c.ID
		res.Hooks = hooksOn
		if line, err := json.Marshal(res); err == nil {
			os.Stdout.Write(append(line, '\n'))
			os.RemoveAll(scratch)
			os.Exit(0)
		}
	}
	return res
}
