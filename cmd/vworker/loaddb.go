package main

import (
	"bytes"
	"encoding/json"
	"os"

	"verif/internal/proto"
)

// Kind "loaddb": a "prolog" case plus structural dumps of the database (through the read-only hooks) after
// selected steps. Without hooks the dumps are absent and the controller relies on the queries alone.
func init() { kinds["loaddb"] = runLoadDBCase }

func runLoadDBCase(c *proto.Case) *proto.Result {
	res := &proto.Result{}
	var p proto.LoadDBPayload
	if len(c.P) > 0 {
		if err := json.Unmarshal(c.P, &p); err != nil {
			res.Fatal = "loaddb payload: " + err.Error()
			return res
		}
	}
	for name, content := range c.Files {
		if err := os.WriteFile(name, []byte(content), 0o644); err != nil {
			res.Fatal = err.Error()
			return res
		}
	}
	installHooks()
	defer uninstallHooks()
	counters = &proto.Counters{}
	defer func() { counters = nil }()
	s := newSession(c)
	want := map[int]bool{}
	for _, i := range p.DumpAfter {
		want[i] = true
	}
	base := dbBaseline(s)
	var out proto.LoadDBResult
	var prev []byte
	dump := func() {
		d := dbDump(s, base)
		b, _ := json.Marshal(d)
		if prev != nil && bytes.Equal(prev, b) {
			out.Dumps = append(out.Dumps, nil)
			out.Same = append(out.Same, true)
			return
		}
		prev = b
		out.Dumps = append(out.Dumps, d)
		out.Same = append(out.Same, false)
	}
	if hooksOn && want[-1] {
		dump()
	}
	for i := range c.Steps {
		res.Steps = append(res.Steps, s.runStep(&c.Steps[i]))
		if hooksOn && want[i] {
			dump()
		}
	}
	res.R, _ = json.Marshal(&out)
	res.Counters = counters
	return res
}
