package main

import (
	"github.com/ichiban/prolog/engine"

	"verif/internal/proto"
)

// Kind "optable" (property C18) is kind "prolog" plus one extra predicate, verif_ops(L): L is unified with
// the list of op(Priority, Specifier, Name) entries that the VM's operator table holds according to the
// verif-tagged accessor engine.VerifOperators, or with the atom `unavailable` when the worker was built
// without the hooks. The controller uses it only to cross-check that current_op/3 is complete.
func init() { kinds["optable"] = runOpTableCase }

func runOpTableCase(c *proto.Case) *proto.Result {
	res := &proto.Result{}
	installHooks()
	defer uninstallHooks()
	counters = &proto.Counters{}
	defer func() { counters = nil }()
	s := newSession(c)
	s.p.Register1(engine.NewAtom("verif_ops"), func(vm *engine.VM, l engine.Term, k engine.Cont, env *engine.Env) *engine.Promise {
		t, ok := verifOpsTerm(vm)
		if !ok {
			t = engine.NewAtom("unavailable")
		}
		return engine.Unify(vm, l, t, k, env)
	})
	for _, text := range c.Setup {
		ctx, cancel := s.begin(0)
		err := s.p.ExecContext(ctx, text)
		cancel()
		res.Setup = append(res.Setup, errOf(s.cv, err))
	}
	for i := range c.Steps {
		res.Steps = append(res.Steps, s.runStep(&c.Steps[i]))
	}
	res.Counters = counters
	return res
}
