//go:build verif

package main

import (
	"encoding/json"
	"strings"

	"github.com/ichiban/prolog"
	"github.com/ichiban/prolog/engine"

	"verif/internal/proto"
	"verif/internal/term"
)

func init() { kinds["compile"] = runCompileCase }

// compilePayload: compile the case's Inputs (clause terms) with the engine's clause compiler, and/or read a
// Prolog text with the engine's reader and compile every clause of it (used for bootstrap.pl).
type compilePayload struct {
	Text string `json:"text,omitempty"`
}

type compiledInstr struct {
	Op      string     `json:"op"`
	Operand *term.Term `json:"operand,omitempty"`
}

type compiledClause struct {
	Name  string          `json:"name"`
	Arity int             `json:"arity"`
	Raw   *term.Term      `json:"raw"`
	NVars int             `json:"nvars"`
	Code  []compiledInstr `json:"code"`
}

type compiledTerm struct {
	Source  *term.Term       `json:"source,omitempty"` // the clause term as read (text mode)
	Clauses []compiledClause `json:"clauses,omitempty"`
	Loaded  []compiledClause `json:"loaded,omitempty"` // the clauses of that predicate in the loaded database (text mode)
	Err     string           `json:"err,omitempty"`
}

type compileResult struct {
	Terms []compiledTerm `json:"terms"`
}

func convClause(cv *conv, vc engine.VerifClause) compiledClause {
	cc := compiledClause{Name: vc.Name, Arity: vc.Arity, NVars: vc.NVars}
	if vc.Raw != nil {
		cc.Raw = cv.toTree(vc.Raw, nil)
	}
	for _, in := range vc.Code {
		ci := compiledInstr{Op: in.Op}
		if in.Operand != nil {
			ci.Operand = cv.toTree(in.Operand, nil)
		}
		cc.Code = append(cc.Code, ci)
	}
	return cc
}

func runCompileCase(c *proto.Case) *proto.Result {
	res := &proto.Result{}
	var pl compilePayload
	if len(c.P) > 0 {
		if err := json.Unmarshal(c.P, &pl); err != nil {
			res.Fatal = err.Error()
			return res
		}
	}
	cv := newConv()
	var out compileResult
	for _, in := range c.Inputs {
		t := cv.fromTree(in)
		var ct compiledTerm
		cs, err := engine.VerifCompile(t, nil)
		if err != nil {
			ct.Err = err.Error()
		}
		for _, vc := range cs {
			ct.Clauses = append(ct.Clauses, convClause(cv, vc))
		}
		out.Terms = append(out.Terms, ct)
	}
	if pl.Text != "" {
		p := prolog.New(strings.NewReader(""), &strings.Builder{})
		parser := engine.NewParser(&p.VM, strings.NewReader(pl.Text))
		seen := map[string]int{}
		for parser.More() {
			t, err := parser.Term()
			if err != nil {
				out.Terms = append(out.Terms, compiledTerm{Err: "read: " + err.Error()})
				break
			}
			src := cv.toTree(t, nil)
			if src.IsCmp(":-", 1) {
				continue
			}
			ct := compiledTerm{Source: src}
			cs, err := engine.VerifCompile(t, nil)
			if err != nil {
				ct.Err = err.Error()
			}
			for _, vc := range cs {
				ct.Clauses = append(ct.Clauses, convClause(cv, vc))
			}
			if len(cs) > 0 {
				key := cs[0].Name + "/" + string(rune('0'+cs[0].Arity))
				idx := seen[key]
				seen[key] += len(cs)
				if loaded, ok := engine.VerifClauses(&p.VM, engine.NewAtom(cs[0].Name), cs[0].Arity); ok {
					for i := idx; i < idx+len(cs) && i < len(loaded); i++ {
						ct.Loaded = append(ct.Loaded, convClause(cv, loaded[i]))
					}
				}
			}
			out.Terms = append(out.Terms, ct)
		}
	}
	res.R, _ = json.Marshal(&out)
	return res
}
