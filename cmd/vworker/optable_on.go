//go:build verif

package main

import "github.com/ichiban/prolog/engine"

// verifOpsTerm renders the VM's operator table (read through the verif accessor) as a list of op/3 terms.
func verifOpsTerm(vm *engine.VM) (engine.Term, bool) {
	ops := engine.VerifOperators(vm)
	ts := make([]engine.Term, 0, len(ops))
	for _, o := range ops {
		ts = append(ts, engine.NewAtom("op").Apply(engine.Integer(o.Priority), engine.NewAtom(o.Specifier), engine.NewAtom(o.Name)))
	}
	return engine.List(ts...), true
}
