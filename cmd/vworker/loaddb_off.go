//go:build !verif

package main

import "verif/internal/proto"

type dbBase struct{}

func dbBaseline(s *session) dbBase                  { return dbBase{} }
func dbDump(s *session, base dbBase) []proto.DBProc { return nil }
