package main

import (
	"fmt"
	"math"
	"unicode/utf8"

	"github.com/ichiban/prolog/engine"

	"verif/internal/term"
)

// conv converts between the controller's trees and engine terms using only the exported API.
type conv struct {
	vars    map[int64]engine.Variable // controller variable id → engine variable (per case)
	streams map[*engine.Stream]int64
	nodes   int
	// shared: equal compound sub-terms of the terms built for one case are ONE engine object, as they are when a
	// Prolog program binds a variable to a compound and uses it twice (terms are immutable, so this is
	// unobservable for a correct engine; it exposes code that mutates or remembers terms by identity)
	shared map[string]engine.Term
}

func newConv() *conv {
	return &conv{vars: map[int64]engine.Variable{}, streams: map[*engine.Stream]int64{}, shared: map[string]engine.Term{}}
}

const maxNodes = 2_000_000

// toTree serialises an engine term as seen through env.
func (c *conv) toTree(t engine.Term, env *engine.Env) *term.Term {
	c.nodes = 0
	return c.tree(t, env, 0)
}

func (c *conv) tree(t engine.Term, env *engine.Env, depth int) *term.Term {
	c.nodes++
	if c.nodes > maxNodes || depth > 100000 {
		return &term.Term{K: term.KOther, S: "too_big"}
	}
	switch x := env.Resolve(t).(type) {
	case engine.Variable:
		return term.V(int64(x))
	case engine.Atom:
		return term.A(x.String())
	case engine.Integer:
		return term.I(int64(x))
	case engine.Float:
		return term.F(float64(x))
	case *engine.Stream:
		id, ok := c.streams[x]
		if !ok {
			id = int64(len(c.streams) + 1)
			c.streams[x] = id
		}
		return &term.Term{K: term.KStream, I: id}
	case engine.Compound:
		name := x.Functor().String()
		if name == "." && x.Arity() == 2 {
			// iterate along the spine
			var elems []*term.Term
			var cur engine.Term = x
			for {
				cc, ok := env.Resolve(cur).(engine.Compound)
				if !ok || cc.Arity() != 2 || cc.Functor().String() != "." {
					break
				}
				c.nodes++
				if c.nodes > maxNodes {
					return &term.Term{K: term.KOther, S: "too_big"}
				}
				elems = append(elems, c.tree(cc.Arg(0), env, depth+1))
				cur = cc.Arg(1)
			}
			return term.PL(c.tree(cur, env, depth+1), elems...)
		}
		args := make([]*term.Term, x.Arity())
		for i := range args {
			args[i] = c.tree(x.Arg(i), env, depth+1)
		}
		if len(args) == 0 {
			return &term.Term{K: term.KOther, S: "compound/0:" + name}
		}
		return &term.Term{K: term.KCmp, S: name, Args: args}
	case nil:
		return &term.Term{K: term.KOther, S: "nil"}
	default:
		return &term.Term{K: term.KOther, S: fmt.Sprintf("%T", x)}
	}
}

// fromTree builds an engine term, choosing the representation of list runs as the tree asks.
func (c *conv) fromTree(t *term.Term) engine.Term {
	if t.K == term.KCmp && !t.IsCmp(".", 2) && c.shared != nil {
		if k, ok := shareKey(t, 0); ok {
			if e, ok := c.shared[k]; ok {
				return e
			}
			e := c.build(t)
			c.shared[k] = e
			return e
		}
	}
	return c.build(t)
}

// shareKey is a structural key of a small non-list compound (ok=false for big terms and terms containing lists,
// which are always built afresh so that their representation hints are honoured).
func shareKey(t *term.Term, depth int) (string, bool) {
	if depth > 6 {
		return "", false
	}
	switch t.K {
	case term.KVar:
		return fmt.Sprintf("v%d", t.I), true
	case term.KAtom:
		return "a" + t.S + "\x00", true
	case term.KInt:
		return fmt.Sprintf("i%d", t.I), true
	case term.KFloat:
		return fmt.Sprintf("f%x", math.Float64bits(t.F)), true
	case term.KCmp:
		if t.IsCmp(".", 2) || len(t.Args) > 8 {
			return "", false
		}
		k := fmt.Sprintf("c%s\x00%d(", t.S, len(t.Args))
		for _, a := range t.Args {
			ak, ok := shareKey(a, depth+1)
			if !ok {
				return "", false
			}
			k += ak + ","
		}
		return k + ")", true
	}
	return "", false
}

func (c *conv) build(t *term.Term) engine.Term {
	switch t.K {
	case term.KVar:
		v, ok := c.vars[t.I]
		if !ok {
			v = engine.NewVariable()
			c.vars[t.I] = v
		}
		return v
	case term.KAtom:
		return engine.NewAtom(t.S)
	case term.KInt:
		return engine.Integer(t.I)
	case term.KFloat:
		return engine.Float(t.F)
	case term.KCmp:
		if t.IsCmp(".", 2) {
			return c.listFromTree(t)
		}
		args := make([]engine.Term, len(t.Args))
		for i, a := range t.Args {
			args[i] = c.fromTree(a)
		}
		return engine.NewAtom(t.S).Apply(args...)
	default:
		return engine.NewAtom("$unsupported")
	}
}

func (c *conv) listFromTree(t *term.Term) engine.Term {
	rep := t.Rep
	// collect the run of cells that share this representation
	var elems []*term.Term
	cur := t
	for {
		elems = append(elems, cur.Args[0])
		next := cur.Args[1]
		if next.IsCmp(".", 2) && (next.Rep == "" || next.Rep == rep) {
			cur = next
			continue
		}
		cur = next
		break
	}
	tailTree := cur
	switch rep {
	case "chars", "codes":
		if tailTree.IsAtom("[]") {
			if s, ok := textOf(elems, rep == "chars"); ok {
				if rep == "chars" {
					return engine.CharList(s)
				}
				return engine.CodeList(s)
			}
		}
	case "cons":
		tail := c.fromTree(tailTree)
		for i := len(elems) - 1; i >= 0; i-- {
			tail = engine.NewAtom(".").Apply(c.fromTree(elems[i]), tail)
		}
		return tail
	}
	es := make([]engine.Term, len(elems))
	for i, e := range elems {
		es[i] = c.fromTree(e)
	}
	if tailTree.IsAtom("[]") {
		return engine.List(es...)
	}
	return engine.PartialList(c.fromTree(tailTree), es...)
}

// textOf returns the string whose chars (or codes) are elems, if they are representable.
func textOf(elems []*term.Term, chars bool) (string, bool) {
	var rs []rune
	for _, e := range elems {
		if chars {
			if e.K != term.KAtom {
				return "", false
			}
			r, n := utf8.DecodeRuneInString(e.S)
			if n != len(e.S) || n == 0 || r == utf8.RuneError {
				return "", false
			}
			rs = append(rs, r)
		} else {
			if e.K != term.KInt || e.I <= 0 || e.I > utf8.MaxRune || !utf8.ValidRune(rune(e.I)) || e.I == utf8.RuneError {
				return "", false
			}
			rs = append(rs, rune(e.I))
		}
	}
	return string(rs), len(rs) > 0
}
