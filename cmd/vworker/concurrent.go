package main

import (
	"bytes"
	"compress/gzip"
	"encoding/binary"
	"encoding/json"
	"errors"
	"fmt"
	"os"
	"runtime"
	"runtime/debug"
	"sort"
	"strconv"
	"strings"
	"sync"
	"sync/atomic"
	"time"

	"github.com/ichiban/prolog"
	"github.com/ichiban/prolog/engine"

	"verif/internal/proto"
	"verif/internal/term"
)

// Kind "concurrent" (property C14). N interpreters, one goroutine each, execute scripts at the same time under
// the race detector. NOTHING of the monitor is shared between the goroutines of a pass except
//   - the read-only payload,
//   - the spin barrier and the logical clock (sync/atomic only),
//   - the result slice, of which goroutine g writes element g only (read by the parent after wg.Wait).
// The package-level state of the "prolog" kind (cur, counters, curConv) is not used here.

func init() { kinds["concurrent"] = runConcurrent }

const concMaxRaceLog = 512 << 10
const concRaceSeparator = "==================\n"

// concRaceLogOff is how much of this process's race log earlier cases have already shipped.
var concRaceLogOff int64

func runConcurrent(c *proto.Case) *proto.Result {
	res := &proto.Result{}
	var pl proto.ConcPayload
	if err := json.Unmarshal(c.P, &pl); err != nil {
		res.Fatal = "payload: " + err.Error()
		return res
	}
	for name, content := range c.Files {
		if err := os.WriteFile(name, []byte(content), 0o644); err != nil {
			res.Fatal = err.Error()
			return res
		}
	}
	if pl.Procs > 0 {
		old := runtime.GOMAXPROCS(pl.Procs)
		defer runtime.GOMAXPROCS(old)
	}
	concInstallHook()
	stopGuard := concMemoryGuard()
	defer stopGuard()
	out := &proto.ConcResult{Race: raceEnabled, Procs: runtime.GOMAXPROCS(0)}
	out.Passes = append(out.Passes, concSequential(&pl, "alone", pl.Tag+"a00"))
	if pl.Seq {
		out.Passes = append(out.Passes, concSequential(&pl, "alone", pl.Tag+"a01"))
		out.Passes = append(out.Passes, concSequential(&pl, "seq", pl.Tag+"q00"))
		out.Passes = append(out.Passes, concSequential(&pl, "seq2", pl.Tag+"q01"))
	}
	for r := 0; r < pl.Reps; r++ {
		out.Passes = append(out.Passes, concPass(&pl, r))
	}
	out.RaceLog, out.RaceBytes, out.LogPath = concReadRaceLog()
	b, err := json.Marshal(out)
	if err != nil {
		res.Fatal = "marshal: " + err.Error()
		return res
	}
	// the observation log is large and repetitive: ship it compressed
	var z bytes.Buffer
	zw := gzip.NewWriter(&z)
	_, _ = zw.Write(b)
	_ = zw.Close()
	res.R, _ = json.Marshal(&proto.ConcWire{GZ: z.Bytes()})
	return res
}

// concHeapLimit bounds the live heap of a case (a normal case stays below 100 MiB). A defect that makes
// interpreters share variables can build runaway terms; under the race detector the resident size is several
// times the heap, so the process is ended long before the machine suffers. The controller sees a dead worker.
const concHeapLimit = 768 << 20

func concMemoryGuard() (stop func()) {
	done := make(chan struct{})
	go func() {
		t := time.NewTicker(100 * time.Millisecond)
		defer t.Stop()
		var ms runtime.MemStats
		for {
			select {
			case <-done:
				return
			case <-t.C:
				runtime.ReadMemStats(&ms)
				if ms.HeapAlloc > concHeapLimit {
					fmt.Fprintf(os.Stderr, "vworker: memory guard: heap %d MiB exceeds %d MiB, giving up on this case\n", ms.HeapAlloc>>20, concHeapLimit>>20)
					if scratch != "" {
						os.RemoveAll(scratch)
					}
					os.Exit(86)
				}
			}
		}
	}()
	return func() { close(done) }
}

// concReadRaceLog returns what the race detector appended to this process's log file since the last call.
// With GORACE="halt_on_error=0 log_path=P" the runtime writes every report synchronously to P.<pid>.
func concReadRaceLog() (string, int, bool) {
	path := ""
	for _, f := range strings.Fields(os.Getenv("GORACE")) {
		if strings.HasPrefix(f, "log_path=") {
			path = strings.TrimPrefix(f, "log_path=")
		}
	}
	if path == "" || path == "stdout" || path == "stderr" {
		return "", 0, false
	}
	b, err := os.ReadFile(path + "." + strconv.Itoa(os.Getpid()))
	if err != nil || int64(len(b)) <= concRaceLogOff {
		return "", 0, true // the file is created with the first report
	}
	b = b[concRaceLogOff:]
	concRaceLogOff += int64(len(b))
	n := len(b)
	if n > concMaxRaceLog { // keep whole report blocks only
		b = b[:concMaxRaceLog]
		if i := bytes.LastIndex(b, []byte(concRaceSeparator)); i > 0 {
			b = b[:i+len(concRaceSeparator)]
		}
	}
	return string(b), n, true
}

// --- one interpreter ----------------------------------------------------------------------------------

type concInterp struct {
	p   *prolog.Interpreter
	out bytes.Buffer
	cv  *conv
}

func newConcInterp(sc *proto.ConcScript, tag string) *concInterp {
	ci := &concInterp{cv: newConv()}
	if sc.NilIO {
		ci.p = prolog.New(nil, nil)
		return ci
	}
	input := sc.Input
	ci.p = prolog.New(strings.NewReader(strings.ReplaceAll(input, proto.ConcTagMark, tag)), &ci.out)
	return ci
}

// concCapture keeps the term and the environment of one answer variable; it is rendered by its own goroutine.
type concCapture struct {
	t   engine.Term
	env *engine.Env
}

func (c *concCapture) Scan(_ *engine.VM, t engine.Term, env *engine.Env) error {
	c.t, c.env = t, env
	return nil
}

func concVar(id int64) string { return "_G" + strconv.FormatInt(id, 10) }

func (ci *concInterp) setErr(o *proto.ConcObs, err error) {
	if err == nil || o.ErrText != "" {
		return
	}
	o.ErrText = err.Error() // Exception.Error renders with the package-level default write options
	if o.ErrText == "" {
		o.ErrText = "(empty error text)"
	}
	var ex engine.Exception
	if errors.As(err, &ex) {
		o.Exc = term.Text(ci.cv.toTree(ex.Term(), nil), concVar)
	} else {
		o.Exc = fmt.Sprintf("go:%T", err)
	}
}

func (ci *concInterp) step(pl *proto.ConcPayload, st *proto.ConcStep, tag string, sched int64, seed uint64) proto.ConcObs {
	var o proto.ConcObs
	outStart := ci.out.Len()
	ctx, cancel := concCallContext(pl.Budget, sched, seed)
	defer cancel()
	if st.Exec != "" {
		ci.setErr(&o, ci.p.ExecContext(ctx, strings.ReplaceAll(st.Exec, proto.ConcTagMark, tag)))
	} else {
		sols, err := ci.p.QueryContext(ctx, strings.ReplaceAll(st.Query, proto.ConcTagMark, tag))
		if err != nil {
			ci.setErr(&o, err)
		} else {
			max := st.Max
			if max <= 0 {
				max = 1000
			}
			for len(o.Ans) < max {
				if !sols.Next() {
					o.Done = true
					break
				}
				m := map[string]concCapture{}
				if err := sols.Scan(m); err != nil {
					ci.setErr(&o, fmt.Errorf("scan: %w", err))
					break
				}
				ts := map[string]prolog.TermString{}
				if err := sols.Scan(ts); err != nil {
					ci.setErr(&o, fmt.Errorf("scan: %w", err))
					break
				}
				names := make([]string, 0, len(m))
				for k := range m {
					names = append(names, k)
				}
				sort.Strings(names)
				var a, t strings.Builder
				for _, k := range names {
					v := m[k]
					a.WriteString(k + "=" + term.Text(ci.cv.toTree(v.t, v.env), concVar) + ";")
					t.WriteString(k + "=" + string(ts[k]) + ";")
				}
				if _, ok := m["X"]; ok {
					// the same through a struct destination (conversion plans kept per destination type must not keep an interpreter)
					var sx struct{ X prolog.TermString }
					if err := sols.Scan(&sx); err != nil {
						ci.setErr(&o, fmt.Errorf("scan into a struct: %w", err))
						break
					}
					t.WriteString("struct.X=" + string(sx.X) + ";")
				}
				o.Ans = append(o.Ans, a.String())
				o.TS = append(o.TS, t.String())
			}
			// Err is read before Close: the query goroutine is then either finished or parked in the handshake
			ci.setErr(&o, sols.Err())
			if err := sols.Close(); err != nil {
				o.CloseErr = err.Error()
			}
		}
	}
	o.Out = string(ci.out.Bytes()[outStart:])
	o.Budget = ctx.Err() != nil
	return o
}

func concSeed(pl *proto.ConcPayload, pass, g, step int) uint64 {
	x := pl.Seed ^ uint64(pass+1)*0x9e3779b97f4a7c15 ^ uint64(g+1)*0xbf58476d1ce4e5b9 ^ uint64(step+1)*0x94d049bb133111eb
	x ^= x >> 31
	x *= 0xd6e8feb86659fd93
	x ^= x >> 29
	return x
}

// runScript runs script g without any rendezvous (sequential passes).
func (ci *concInterp) runScript(pl *proto.ConcPayload, g int, tag string, slot *proto.ConcGor) {
	sc := &pl.Scripts[g]
	for i := range sc.Steps {
		if sc.Steps[i].Barrier {
			slot.Steps = append(slot.Steps, proto.ConcObs{})
			continue
		}
		slot.Steps = append(slot.Steps, ci.step(pl, &sc.Steps[i], tag, 0, concSeed(pl, 0, g, i)))
	}
}

// concSequential runs every script on its own interpreter, never two at the same time.
func concSequential(pl *proto.ConcPayload, kind, tag string) (pass proto.ConcPass) {
	n := len(pl.Scripts)
	pass = proto.ConcPass{Kind: kind, Tag: tag, G: make([]proto.ConcGor, n)}
	defer func() {
		if r := recover(); r != nil {
			pass.Aborted = fmt.Sprintf("panic: %v\n%s", r, debug.Stack())
		}
	}()
	switch kind {
	case "alone": // highest index first: a script's baseline never runs after a lower-numbered script
		for g := n - 1; g >= 0; g-- {
			newConcInterp(&pl.Scripts[g], tag).runScript(pl, g, tag, &pass.G[g])
		}
	case "seq":
		cis := make([]*concInterp, n)
		for g := range cis {
			cis[g] = newConcInterp(&pl.Scripts[g], tag)
		}
		for g := range cis {
			cis[g].runScript(pl, g, tag, &pass.G[g])
		}
	default: // seq2
		for g := 0; g < n; g++ {
			newConcInterp(&pl.Scripts[g], tag).runScript(pl, g, tag, &pass.G[g])
		}
	}
	return pass
}

// --- the concurrent pass ---------------------------------------------------------------------------------

// spinBarrier is a reusable rendezvous built on sync/atomic only. Waiters spin (yielding) so that all of them
// leave within a very short time of each other, which is what makes simultaneous first interning of one name
// likely; after a while they sleep so that they do not starve running goroutines when GOMAXPROCS < N.
type spinBarrier struct {
	n     int32
	count int32
	gen   int32
	abort int32
}

func (b *spinBarrier) wait() bool {
	gen := atomic.LoadInt32(&b.gen)
	if atomic.AddInt32(&b.count, 1) == b.n {
		atomic.StoreInt32(&b.count, 0)
		atomic.AddInt32(&b.gen, 1)
		return atomic.LoadInt32(&b.abort) == 0
	}
	for i := 0; atomic.LoadInt32(&b.gen) == gen; i++ {
		if atomic.LoadInt32(&b.abort) != 0 {
			return false
		}
		if i < 300 {
			runtime.Gosched()
		} else {
			time.Sleep(50 * time.Microsecond)
		}
	}
	return true
}

func concSharedName(tag string, round, k int) string {
	return fmt.Sprintf("sx_%s_%d_%d", tag, round, k)
}
func concPrivName(tag string, g, k int) string { return fmt.Sprintf("px_%s_g%d_%d", tag, g, k) }

func concPass(pl *proto.ConcPayload, rep int) proto.ConcPass {
	n := len(pl.Scripts)
	tag := fmt.Sprintf("%sr%02d", pl.Tag, rep)
	pass := proto.ConcPass{Kind: "conc", Tag: tag, G: make([]proto.ConcGor, n)}
	bar := &spinBarrier{n: int32(n)}
	var clock int64
	var wg sync.WaitGroup
	for g := 0; g < n; g++ {
		wg.Add(1)
		go func(g int) {
			defer wg.Done()
			slot := &pass.G[g]
			defer func() {
				if r := recover(); r != nil {
					slot.Panic = fmt.Sprintf("%v\n%s", r, debug.Stack())
					atomic.StoreInt32(&bar.abort, 1)
				}
			}()
			concGoroutine(pl, rep, g, tag, bar, &clock, slot)
		}(g)
	}
	wg.Wait()
	if atomic.LoadInt32(&bar.abort) != 0 {
		pass.Aborted = "a goroutine left the pass early"
	}
	return pass
}

func concGoroutine(pl *proto.ConcPayload, rep, g int, tag string, bar *spinBarrier, clock *int64, slot *proto.ConcGor) {
	sc := &pl.Scripts[g]
	// names and buffers are prepared before the release so that the measured region is the engine's work
	shared := make([]string, pl.Micro*pl.Batch)
	for i := range shared {
		shared[i] = concSharedName(tag, i/pl.Batch, i%pl.Batch)
	}
	priv := make([]string, pl.Private)
	for i := range priv {
		priv[i] = concPrivName(tag, g, i)
	}
	slot.Shared = make([]uint64, 0, len(shared))
	slot.SharedStr = make([]string, 0, len(shared))
	slot.Shared2 = make([]uint64, 0, len(shared))
	slot.Priv = make([]uint64, 0, len(priv))
	slot.PrivStr = make([]string, 0, len(priv))
	vars := make([]int64, pl.Vars)
	slot.Steps = make([]proto.ConcObs, 0, len(sc.Steps))
	nextPriv := 0
	internPriv := func() {
		if nextPriv < len(priv) {
			a := engine.NewAtom(priv[nextPriv])
			slot.Priv = append(slot.Priv, uint64(a))
			slot.PrivStr = append(slot.PrivStr, a.String())
			nextPriv++
		}
	}

	if !bar.wait() {
		return
	}
	slot.Start = atomic.AddInt64(clock, 1)

	// creation (bootstrap load), loading, querying, writing: the script
	ci := newConcInterp(sc, tag)
	for i := range sc.Steps {
		if sc.Steps[i].Barrier {
			slot.Steps = append(slot.Steps, proto.ConcObs{})
			if !bar.wait() {
				return
			}
			continue
		}
		slot.Steps = append(slot.Steps, ci.step(pl, &sc.Steps[i], tag, pl.Sched, concSeed(pl, rep+1, g, i)))
		internPriv() // a private fresh name between two steps: table growth while others read it
	}
	for nextPriv < len(priv) {
		internPriv()
	}

	// the same never-seen names, interned by all goroutines right after a common release
	for m := 0; m < pl.Micro; m++ {
		if !bar.wait() {
			return
		}
		for k := m * pl.Batch; k < (m+1)*pl.Batch; k++ {
			a := engine.NewAtom(shared[k])
			slot.Shared = append(slot.Shared, uint64(a))
			slot.SharedStr = append(slot.SharedStr, a.String())
		}
	}

	// fresh variables in a tight loop, all goroutines at once
	if !bar.wait() {
		return
	}
	for i := range vars {
		vars[i] = int64(engine.NewVariable())
	}
	var prev int64
	buf := make([]byte, 0, len(vars)*2)
	for _, v := range vars {
		buf = binary.AppendVarint(buf, v-prev)
		prev = v
	}
	slot.Vars = buf

	// same name => same atom, also later
	for _, name := range shared {
		slot.Shared2 = append(slot.Shared2, uint64(engine.NewAtom(name)))
	}
	slot.End = atomic.AddInt64(clock, 1)
}
