package main

import (
	"bytes"
	"encoding/json"
	"errors"
	"fmt"
	"os"
	"strings"

	"github.com/ichiban/prolog"
	"github.com/ichiban/prolog/engine"

	"verif/internal/proto"
	"verif/internal/term"
)

// Kind "c05goal" (property C05, workload B): one goal p(t1..tn) against a fresh interpreter. The arguments
// are built in Go (never parsed) and reach the goal through verif_in/2. Answers are counted, not
// serialised (an answer may legitimately be a structure of 10^6 cells).

func init() { kinds["c05goal"] = runC05Goal }

// C05GoalP is the payload of a c05goal case.
type C05GoalP struct {
	Setup  []string     `json:"setup,omitempty"`  // Exec'ed first (errors recorded)
	Name   string       `json:"name,omitempty"`   // predicate name (Via direct|call|catch)
	Args   []*term.Term `json:"args,omitempty"`   // argument shapes; '$c05'(Gen, N) markers are expanded here
	Via    string       `json:"via"`              // direct: verif_in(0,V0),…,'p'(V0,…)  call: verif_in(0,G), call(G)  catch: verif_in(0,G), catch(G,_,true)  text: Text as is
	Text   string       `json:"text,omitempty"`   // Via text: the query (verif_in(I,_) may refer to Args)
	Max    int          `json:"max,omitempty"`    // answers pulled (default 5)
	Budget int64        `json:"budget,omitempty"` // trampoline steps before the context is cancelled
	Input  string       `json:"input,omitempty"`  // what user_input holds
}

// C05GoalR is the observation.
type C05GoalR struct {
	Query     string     `json:"query"`
	SetupErr  []string   `json:"setup_err,omitempty"`
	Answers   int        `json:"answers,omitempty"`
	Exhausted bool       `json:"exhausted,omitempty"`
	Err       *proto.Err `json:"err,omitempty"`
	QueryErr  bool       `json:"query_err,omitempty"`
	CloseErr  string     `json:"close_err,omitempty"`
	BudgetHit bool       `json:"budget_hit,omitempty"`
	Steps     int64      `json:"nsteps,omitempty"`
	OutBytes  int        `json:"out_bytes,omitempty"`
	Lingering bool       `json:"lingering,omitempty"` // the query goroutine was still alive 2 s after Close
}

func runC05Goal(c *proto.Case) *proto.Result {
	res := &proto.Result{}
	var p C05GoalP
	if err := json.Unmarshal(c.P, &p); err != nil {
		res.Fatal = "c05goal: " + err.Error()
		return res
	}
	c05HardCap()
	for name, content := range c.Files {
		if err := os.WriteFile(name, []byte(content), 0o644); err != nil {
			res.Fatal = err.Error()
			return res
		}
	}
	c05ArmCPU(c05CaseCPU)
	c05Settle()
	installHooks() // never uninstalled, counters never reset to nil: see c05Settle
	c05LightHooks()
	counters = &proto.Counters{}

	s := newSession(&proto.Case{UserInput: &proto.Source{Data: []byte(p.Input)}})
	var r C05GoalR
	for _, t := range p.Setup {
		if err := s.p.Exec(t); err != nil {
			r.SetupErr = append(r.SetupErr, clip(err.Error(), 300))
		}
	}
	b := &c05Builder{cv: s.cv, ip: s.p}
	args := make([]engine.Term, len(p.Args))
	for i, a := range p.Args {
		args[i] = b.build(a)
	}
	var q strings.Builder
	switch p.Via {
	case "direct":
		s.inputs = args
		for i := range args {
			fmt.Fprintf(&q, "verif_in(%d, V%d), ", i, i)
		}
		q.WriteString(term.AtomText(p.Name))
		if len(args) > 0 {
			q.WriteString("(")
			for i := range args {
				if i > 0 {
					q.WriteString(", ")
				}
				fmt.Fprintf(&q, "V%d", i)
			}
			q.WriteString(")")
		}
		q.WriteString(".")
	case "call":
		s.inputs = []engine.Term{engine.NewAtom(p.Name).Apply(args...)}
		q.WriteString("verif_in(0, G), call(G).")
	case "catch":
		s.inputs = []engine.Term{engine.NewAtom(p.Name).Apply(args...)}
		q.WriteString("verif_in(0, G), catch(G, _, true).")
	case "text":
		s.inputs = args
		q.WriteString(p.Text)
	default:
		res.Fatal = "c05goal: unknown via " + p.Via
		return res
	}
	r.Query = q.String()
	max := p.Max
	if max <= 0 {
		max = 5
	}
	c05Mark(c.ID, "goal")
	ctx, cancel := s.begin(p.Budget)
	defer cancel()
	sols, err := s.p.QueryContext(ctx, r.Query)
	if err != nil {
		r.Err = c05Err(err)
		r.QueryErr = true // the text was not accepted as a query: no goal ran
	} else {
		for r.Answers < max {
			if !sols.Next() {
				r.Exhausted = true
				break
			}
			r.Answers++
		}
		r.Err = c05Err(sols.Err())
		if err := sols.Close(); err != nil {
			r.CloseErr = err.Error()
		}
		r.Lingering = !c05Settle()
	}
	r.Steps = curState().steps
	r.BudgetHit = curState().hit || (!hooksOn && ctx.Err() != nil)
	r.OutBytes = s.out.Len()
	b.closeAll()
	c05Mark(c.ID, "done")
	res.R, _ = json.Marshal(&r)
	res.Counters = counters
	return res
}

// c05Err reports an error with a bounded picture of its term: the head of the tree in depth-first order
// (error(Formal(Arg1, …), …) comes first), elided once 120 nodes have been emitted.
func c05Err(err error) *proto.Err {
	if err == nil {
		return nil
	}
	e := &proto.Err{GoType: fmt.Sprintf("%T", err)}
	var ex engine.Exception
	if errors.As(err, &ex) {
		n := 120
		e.Exception = c05Brief(ex.Term(), &n, 0)
		// Error() writes the whole term; the engine's writer needs seconds for terms nested thousands of levels
		// deep, which says nothing about C05: a big term is shown by its head only.
		if size := 3000; !c05Within(ex.Term(), &size) {
			e.Text = "(term of more than 3000 nodes) " + e.Exception.String()
			return e
		}
	}
	e.Text = clip(err.Error(), 3000)
	return e
}

// c05Within reports whether t has at most *budget nodes.
func c05Within(t engine.Term, budget *int) bool {
	*budget--
	if *budget < 0 {
		return false
	}
	var env *engine.Env
	if c, ok := env.Resolve(t).(engine.Compound); ok {
		for i := 0; i < c.Arity(); i++ {
			if !c05Within(c.Arg(i), budget) {
				return false
			}
		}
	}
	return true
}

func c05Brief(t engine.Term, budget *int, depth int) *term.Term {
	*budget--
	if *budget < 0 || depth > 40 {
		return &term.Term{K: term.KOther, S: "…"}
	}
	var env *engine.Env
	switch x := env.Resolve(t).(type) {
	case engine.Variable:
		return term.V(int64(x))
	case engine.Atom:
		s := x.String()
		if len(s) > 400 {
			s = clip(s, 400)
		}
		return term.A(s)
	case engine.Integer:
		return term.I(int64(x))
	case engine.Float:
		return term.F(float64(x))
	case *engine.Stream:
		return &term.Term{K: term.KStream, I: 1}
	case engine.Compound:
		args := make([]*term.Term, 0, 4)
		for i := 0; i < x.Arity(); i++ {
			if *budget < 0 {
				args = append(args, &term.Term{K: term.KOther, S: "…"})
				break
			}
			args = append(args, c05Brief(x.Arg(i), budget, depth+1))
		}
		if len(args) == 0 {
			return &term.Term{K: term.KOther, S: "compound/0:" + x.Functor().String()}
		}
		return &term.Term{K: term.KCmp, S: x.Functor().String(), Args: args}
	case nil:
		return &term.Term{K: term.KOther, S: "nil"}
	default:
		return &term.Term{K: term.KOther, S: fmt.Sprintf("%T", x)}
	}
}

// c05Builder expands argument shapes. Ordinary trees go through conv.fromTree; '$c05'(Gen, N) asks for a
// structure that is built here (big or not expressible as a tree: streams).
type c05Builder struct {
	cv      *conv
	ip      *prolog.Interpreter
	closers []*engine.Stream
	sinks   []*bytes.Buffer
}

func (b *c05Builder) closeAll() {
	for _, s := range b.closers {
		_ = s.Close()
	}
}

func (b *c05Builder) build(t *term.Term) engine.Term {
	if !t.IsCmp("$c05", 2) || t.Args[0].K != term.KAtom || t.Args[1].K != term.KInt {
		if t.K == term.KCmp && !t.IsCmp(".", 2) {
			// markers may sit one level down, e.g. f('$c05'(stream_in, 0))
			args := make([]engine.Term, len(t.Args))
			for i, a := range t.Args {
				args[i] = b.build(a)
			}
			return engine.NewAtom(t.S).Apply(args...)
		}
		return b.cv.fromTree(t)
	}
	n := int(t.Args[1].I)
	a := engine.NewAtom("a")
	switch t.Args[0].S {
	case "deep": // f(f(…f(a)…)), depth n
		var r engine.Term = a
		f := engine.NewAtom("f")
		for i := 0; i < n; i++ {
			r = f.Apply(r)
		}
		return r
	case "deep_list": // [[[…[]…]]], depth n
		var r engine.Term = engine.List()
		for i := 0; i < n; i++ {
			r = engine.List(r)
		}
		return r
	case "deep_right": // a+(a+(…)), depth n
		var r engine.Term = a
		plus := engine.NewAtom("+")
		for i := 0; i < n; i++ {
			r = plus.Apply(engine.Integer(1), r)
		}
		return r
	case "deep_left": // ((1+1)+1)+…, depth n
		var r engine.Term = engine.Integer(1)
		plus := engine.NewAtom("+")
		for i := 0; i < n; i++ {
			r = plus.Apply(r, engine.Integer(1))
		}
		return r
	case "conj": // (true, true, …), n goals
		var r engine.Term = engine.NewAtom("true")
		comma := engine.NewAtom(",")
		for i := 1; i < n; i++ {
			r = comma.Apply(engine.NewAtom("true"), r)
		}
		return r
	case "long_list": // [1, …, n] (slice-backed)
		es := make([]engine.Term, n)
		for i := range es {
			es[i] = engine.Integer(i + 1)
		}
		return engine.List(es...)
	case "long_cons": // [a, …] as n generic './2 cells
		var r engine.Term = engine.NewAtom("[]")
		dot := engine.NewAtom(".")
		for i := 0; i < n; i++ {
			r = dot.Apply(a, r)
		}
		return r
	case "long_pairs": // [n-x, …, 1-x]
		es := make([]engine.Term, n)
		minus := engine.NewAtom("-")
		for i := range es {
			es[i] = minus.Apply(engine.Integer(n-i), a)
		}
		return engine.List(es...)
	case "long_atom":
		return engine.NewAtom(strings.Repeat("x", n))
	case "long_chars":
		return engine.CharList(strings.Repeat("y", n))
	case "long_codes":
		return engine.CodeList(strings.Repeat("z", n))
	case "wide": // g(1, …, n)
		es := make([]engine.Term, n)
		for i := range es {
			es[i] = engine.Integer(i + 1)
		}
		return engine.NewAtom("g").Apply(es...)
	case "stream_in": // open text input stream (not registered with the VM, like a stream made by the host)
		return engine.NewInputTextStream(strings.NewReader("foo(X, Y). 'b c'. 42 \"str\" é."))
	case "stream_bin_in":
		return engine.NewInputBinaryStream(bytes.NewReader([]byte{0, 1, 2, 0xff, 0xfe}))
	case "stream_out":
		var buf bytes.Buffer
		b.sinks = append(b.sinks, &buf)
		return engine.NewOutputTextStream(&buf)
	case "stream_bin_out":
		var buf bytes.Buffer
		b.sinks = append(b.sinks, &buf)
		return engine.NewOutputBinaryStream(&buf)
	case "user_in": // the stream behind user_input
		return b.queryStream("current_input(S).")
	case "user_out":
		return b.queryStream("current_output(S).")
	case "file_in": // a stream opened by open/3 on a scratch file, mode read
		return b.queryStream("open('c05_in.txt', read, S).")
	case "file_out":
		return b.queryStream("open('c05_out.txt', write, S).")
	case "file_closed":
		return b.queryStream("open('c05_in.txt', read, S), close(S).")
	}
	return engine.NewAtom("$c05_unknown_gen")
}

type c05StreamScan struct{ s engine.Term }

func (c *c05StreamScan) Scan(vm *engine.VM, t engine.Term, env *engine.Env) error {
	c.s = env.Resolve(t)
	return nil
}

// queryStream obtains a stream term the only way the public API offers: as an answer.
func (b *c05Builder) queryStream(q string) engine.Term {
	sol := b.ip.QuerySolution(q)
	var sc struct{ S c05StreamScan }
	err := sol.Scan(&sc)
	c05Settle() // QuerySolution closes its query; let that goroutine end before the goal starts
	if err != nil || sc.S.s == nil {
		return engine.NewAtom("$c05_no_stream")
	}
	if s, ok := sc.S.s.(*engine.Stream); ok && !strings.HasPrefix(q, "current_") {
		b.closers = append(b.closers, s)
	}
	return sc.S.s
}
