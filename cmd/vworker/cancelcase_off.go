//go:build !verif

package main

import "time"

// Without the verif hooks there is no logical clock: the cancellation instant becomes a wall-clock delay
// (N microseconds, at most 200 ms) and the controller can only report held or inconclusive.
func (r *cancelRun) installClock() {
	switch r.pl.Mode {
	case "hook", "async":
		d := time.Duration(r.pl.N) * time.Microsecond
		if d > 200*time.Millisecond {
			d = 200 * time.Millisecond
		}
		go func() {
			select {
			case <-time.After(d):
				r.markCancel(0, false)
				r.fire()
			case <-r.quit:
			}
		}()
	}
}

func (r *cancelRun) removeClock() {}
