//go:build !verif

package main

import (
	"context"

	"verif/internal/proto"
)

const hooksOn = false

type stepState struct {
	steps    int64
	budget   int64
	cancel   context.CancelFunc
	hit      bool
	maxDepth int
	onStep   func(n int64)
}

var cur stepState
var counters *proto.Counters

func installHooks()   {}
func uninstallHooks() {}
