//go:build !verif

package main

import (
	"context"

	"verif/internal/proto"
)

const hooksOn = false

type stepState struct {
	ctx      context.Context
	steps    int64
	budget   int64
	cancel   context.CancelFunc
	hit      bool
	maxDepth int
	onStep   func(n int64, depth int)
	counters *proto.Counters
}

var curSt = &stepState{}

func curState() *stepState { return curSt }

var counters *proto.Counters

func beginState(ctx context.Context, budget int64, cancel context.CancelFunc) *stepState {
	curSt = &stepState{ctx: ctx, budget: budget, cancel: cancel}
	return curSt
}

func installHooks()   {}
func uninstallHooks() {}
