package ref

import (
	"fmt"
	"strings"
)

type ex struct {
	prog, query string
	want        string // answers joined by " ; " then " / " end
}

var examples = []ex{
	{"", "X = 1 ; X = 2.", "X=1 ; X=2 / exhausted"},
	{"p(1). p(2). p(3).", "p(X), X > 1.", "X=2 ; X=3 / exhausted"},
	{"", "member(X,[a,b]), member(Y,[c,d]).", "X=a,Y=c ; X=a,Y=d ; X=b,Y=c ; X=b,Y=d / exhausted"},
	{"", "append(X,Y,[a,b]).", "X=[],Y=[a,b] ; X=[a],Y=[b] ; X=[a,b],Y=[] / exhausted"},
	// cut (ISO 7.8.4 examples)
	{"twice(!) :- w(c). twice(true) :- w(moss). goal((twice(_), !)). goal(w(three)).", "twice(_), !, w(forwards), fail.", " / exhausted"},
	{"t(1). t(2). t(3). a(X) :- t(X), !. a(9).", "a(X).", "X=1 / exhausted"},
	{"t(1). t(2). a(X,Y) :- t(X), b(Y). b(Y) :- t(Y), !. b(7).", "a(X,Y).", "X=1,Y=1 ; X=2,Y=1 / exhausted"},
	{"t(1). t(2).", "call((t(X), !)), t(Y).", "X=1,Y=1 ; X=1,Y=2 / exhausted"},
	{"t(1). t(2).", "t(X), call(!), t(Y).", "X=1,Y=1 ; X=1,Y=2 ; X=2,Y=1 ; X=2,Y=2 / exhausted"},
	{"t(1). t(2).", "(t(X) -> Y = X ; Y = none).", "X=1,Y=1 / exhausted"},
	{"t(1). t(2).", "(fail -> Y = 1 ; t(Y)).", "Y=1 ; Y=2 / exhausted"},
	{"t(1). t(2).", "\\+ t(3), t(X).", "X=1 ; X=2 / exhausted"},
	{"t(1). t(2).", "\\+ t(1).", " / exhausted"},
	{"t(1). t(2).", "once(t(X)).", "X=1 / exhausted"},
	{"p :- (true ; w(no)), !, fail. p.", "p.", " / exhausted"},
	{"t(1). t(2). q(X) :- (t(X), X > 1, ! ; X = 0).", "q(X).", "X=2 / exhausted"},
	// catch/throw (ISO 7.8.9 examples)
	{"foo(X) :- Y is X * 2, throw(test(Y)). bar(X) :- X = Y, throw(Y). p. p :- throw(b).", "catch(foo(5), test(Y), true).", "Y=10 / exhausted"},
	{"bar(X) :- X = Y, throw(Y).", "catch(bar(3), Z, true).", "Z=3 / exhausted"},
	{"", "catch(true, _, 3).", " / exhausted"},
	{"", "catch(true, C, w(demoen)), throw(bla).", " / error:bla"},
	{"p. p :- throw(b).", "catch(p, B, w(h2)), fail.", " / exhausted"},
	{"", "catch(number_codes0, error(existence_error(procedure, PI), _), true).", "PI='/'(number_codes0,0) / exhausted"},
	{"", "catch((X = 1, throw(f(X,Y))), f(A,B), true).", "X=_G0,Y=_G1,A=1,B=_G2 / exhausted"},
	{"t(1). t(2).", "catch(t(X), _, true), X > 1, throw(oops).", " / error:oops"},
	{"t(1). t(2).", "catch((t(X), X > 1, throw(in(X))), in(Z), true).", "X=_G0,Z=2 / exhausted"},
	{"", "catch(catch(throw(a), b, w(inner)), a, w(outer)).", " / exhausted"},
	{"", "catch(catch(throw(a), a, throw(b)), b, w(outer)).", " / exhausted"},
	{"", "catch(atom_length(1, _), error(type_error(T, C), _), true).", "T=atom,C=1 / exhausted"},
	{"", "catch(call(1), error(E, _), true).", "E=type_error(callable,1) / exhausted"},
	{"", "catch((true, 1), error(E, _), true).", "E=type_error(callable,','(true,1)) / exhausted"},
	// findall/bagof/setof (ISO 8.10 examples)
	{"", "findall(X, (X=1 ; X=2), S).", "X=_G0,S=[1,2] / exhausted"},
	{"", "findall(X+Y, (X=1), S).", "X=_G0,Y=_G1,S=['+'(1,_G2)] / exhausted"},
	{"", "findall(X, fail, L).", "X=_G0,L=[] / exhausted"},
	{"", "findall(X, (X=1 ; X=1), S).", "X=_G0,S=[1,1] / exhausted"},
	{"", "findall(X, (X=2 ; X=1), [1,2]).", " / exhausted"},
	{"", "bagof(X, (X=1 ; X=2), S).", "X=_G0,S=[1,2] / exhausted"},
	{"", "bagof(X, (X=Y ; X=Z), S).", "X=_G0,Y=_G1,Z=_G2,S=[_G1,_G2] / exhausted"},
	{"", "bagof(X, fail, S).", " / exhausted"},
	{"", "bagof(1, (Y=1 ; Y=2), L).", "Y=1,L=[1] ; Y=2,L=[1] / exhausted"},
	{"", "bagof(f(X,Y), (X=a ; Y=b), L).", "X=_G0,Y=_G1,L=[f(a,_G2),f(_G3,b)] / exhausted"},
	{"", "bagof(X, Y^((X=1, Y=1) ; (X=2, Y=2)), S).", "X=_G0,Y=_G1,S=[1,2] / exhausted"},
	{"", "bagof(X, (X=Y ; X=Z ; Y=1), S).", "X=_G0,Y=_G1,Z=_G2,S=[_G1,_G2] ; X=_G0,Y=1,Z=_G1,S=[_G2] / exhausted"},
	{"", "setof(X, (X=2 ; X=1 ; X=2), S).", "X=_G0,S=[1,2] / exhausted"},
	{"a(1,f(_)). a(2,f(_)).", "bagof(X, a(X,Y), L).", "X=_G0,Y=f(_G1),L=[1,2] / exhausted"},
	{"r(3,g(A,A)). r(4,g(_,_)). r(5,g(B,B)).", "bagof(X, r(X,W), L).", "X=_G0,W=g(_G1,_G1),L=[3,5] ; X=_G0,W=g(_G1,_G2),L=[4] / exhausted"},
	// database, logical update view (ISO 7.5.4, 8.9 examples)
	{":- dynamic(p/1). p(1). p(2). p(3).", "p(X), w(X), assertz(p(4)), fail ; findall(Y, p(Y), L).", "X=_G0,Y=_G1,L=[1,2,3,4,4,4] / exhausted"},
	{":- dynamic(p/1). p(1). p(2). p(3).", "retract(p(X)), w(X), fail ; findall(Y, p(Y), L).", "X=_G0,Y=_G1,L=[] / exhausted"},
	{":- dynamic(p/1). p(1). p(2). p(3).", "retract(p(X)), asserta(p(0)), fail ; findall(Y, p(Y), L).", "X=_G0,Y=_G1,L=[0,0,0] / exhausted"},
	{":- dynamic(p/1). p(1). p(2).", "p(X), retract(p(2)), fail ; findall(Y, p(Y), L).", "X=_G0,Y=_G1,L=[1] / exhausted"},
	{":- dynamic(p/1). p(1). p(2).", "p(X), retract(p(2)).", "X=1 / exhausted"},
	{":- dynamic(foo/1). foo(X) :- bar(X).", "clause(foo(A), B).", "A=_G0,B=bar(_G0) / exhausted"},
	{":- dynamic(p/1).", "X = 1, assertz((p(Y) :- q(X, Y))), clause(p(A), B).", "X=1,Y=_G0,A=_G1,B=q(1,_G1) / exhausted"},
	// DCG
	{"x --> [a], !, [b]. x --> [a], [c].", "phrase(x, [a,c]).", " / exhausted"},
	{"x --> [a], y(N), {N > 0}. y(1) --> [b]. y(0) --> [c].", "phrase(x, [a|T], R).", "T=[b|_G0],R=_G0 / exhausted"},
	{"g --> \\+ [a], [b].", "phrase(g, [b]).", " / exhausted"},
	{"s, [a] --> [b].", "phrase(s, [b|T], R).", "T=_G0,R=[a|_G0] / exhausted"},
	{"d --> ([a] ; [b]), d2. d2 --> [] | [c].", "phrase(d, L), !.", "L=[a] / exhausted"},
	{"e --> call(f, x). f(X, [X|S], S).", "phrase(e, L).", "L=[x] / exhausted"},
	// infinite: budget
	{"loop :- loop.", "loop.", " / budget"},
	{"nat(0). nat(s(N)) :- nat(N).", "nat(X).", "X=0 ; X=s(0) ; X=s(s(0)) / more"},
}

// SelfTest runs the pinned ISO examples; the checks refuse to judge anything (inconclusive) if the
// reference engine itself disagrees with them.
func SelfTest() error {
	for _, e := range examples {
		max := 6
		if strings.Contains(e.want, "more") {
			max = 3
		}
		got, end, err := SolveText(e.prog, e.query, max, 20000)
		if err != nil {
			return fmt.Errorf("%s ?- %s: %v", e.prog, e.query, err)
		}
		s := strings.Join(got, " ; ") + " / " + end
		if s != e.want {
			return fmt.Errorf("%s ?- %s\n got  %s\n want %s", e.prog, e.query, s, e.want)
		}
	}
	return nil
}
