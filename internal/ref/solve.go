package ref

import (
	"fmt"
	"strings"

	"verif/internal/term"
)

// Outcome is the complete observable behaviour of a query on the reference engine.
type Outcome struct {
	Answers     [][]*T // per answer: values of the query variables (canonical renaming not applied)
	Events      [][]*T // events logged before each answer boundary; the last entry holds events after the last answer
	Err         *T     // uncaught ball (nil if none)
	Exhausted   bool   // the search space was exhausted (false: stopped at max answers or out of budget)
	OutOfBudget bool
	M           *Machine
}

// Run executes query (whose variables are vars, ids below firstFree) collecting at most max answers.
func Run(db *DB, query *T, vars []*T, firstFree int64, max int, budget int64, opt Options) *Outcome {
	m := New(db, term.C("call", query), firstFree, budget)
	m.Opt = opt
	o := &Outcome{M: m}
	evStart := 0
	for len(o.Answers) < max {
		ok := m.Next()
		var evs []*T
		for _, e := range m.Events[evStart:] {
			evs = append(evs, e.T)
		}
		evStart = len(m.Events)
		o.Events = append(o.Events, evs)
		if !ok {
			break
		}
		o.Answers = append(o.Answers, m.Answer(vars))
	}
	if len(o.Events) == len(o.Answers) {
		o.Events = append(o.Events, nil)
	}
	o.Err = m.Err
	o.Exhausted = m.Exhausted
	o.OutOfBudget = m.OutOfBudget
	return o
}

// LoadProgram adds the clauses of a program; `:- dynamic(F/N)` directives are honoured, other directives
// are rejected.
func LoadProgram(db *DB, clauses []*T) error {
	for _, c := range clauses {
		if c.IsCmp(":-", 1) {
			d := c.Args[0]
			if d.IsCmp("dynamic", 1) {
				pis := []*T{d.Args[0]}
				for len(pis) > 0 {
					pi := pis[0]
					pis = pis[1:]
					if pi.IsCmp(",", 2) {
						pis = append(pis, pi.Args[0], pi.Args[1])
						continue
					}
					if !pi.IsCmp("/", 2) {
						return fmt.Errorf("ref: bad dynamic declaration %s", d)
					}
					db.SetDynamic(pi.Args[0].S, int(pi.Args[1].I))
				}
				continue
			}
			return fmt.Errorf("ref: unsupported directive %s", d)
		}
		if c.IsCmp("-->", 2) {
			t, err := DCGTransform(c)
			if err != nil {
				return err
			}
			c = t
		}
		if err := db.Add(c); err != nil {
			return err
		}
	}
	return nil
}

// SolveText is a convenience for tests and self-tests: program and query as text, answers rendered as
// "X=..,Y=.." strings with canonical variable names.
func SolveText(program, query string, max int, budget int64) ([]string, string, error) {
	db := NewDB()
	if err := LoadProgram(db, term.MustProgram(Prelude+program)); err != nil {
		return nil, "", err
	}
	q, names, err := term.ParseTerm(query)
	if err != nil {
		return nil, "", err
	}
	var vars []*T
	for i := range names {
		vars = append(vars, term.V(int64(i)))
	}
	o := Run(db, q, vars, int64(len(names))+1, max, budget, Options{})
	var out []string
	for _, a := range o.Answers {
		c := term.Canon(a...)
		var parts []string
		for i, n := range names {
			if n == "_" {
				continue
			}
			parts = append(parts, n+"="+c[i].String())
		}
		out = append(out, strings.Join(parts, ","))
	}
	end := "exhausted"
	switch {
	case o.Err != nil:
		end = "error:" + term.Canon(o.Err)[0].String()
	case o.OutOfBudget:
		end = "budget"
	case !o.Exhausted:
		end = "more"
	}
	if o.M.Unsupported != "" {
		return out, end, fmt.Errorf("unsupported: %s", o.M.Unsupported)
	}
	return out, end, nil
}

// Prelude defines the library predicates of the engine's bootstrap that generated programs use, as plain
// clauses.
const Prelude = `
member(X, [X|_]).
member(X, [_|Xs]) :- member(X, Xs).
append([], L, L).
append([H|T], L, [H|R]) :- append(T, L, R).
select(E, [E|Xs], Xs).
select(E, [X|Xs], [X|Ys]) :- select(E, Xs, Ys).
repeat.
repeat :- repeat.
nth0(N, L, E) :- '$ref_nth'(L, 0, N, E).
nth1(N, L, E) :- '$ref_nth'(L, 1, N, E).
call_nth(G, N) :- findall(G, G, L), '$ref_call_nth'(N, L, G).
'$ref_call_nth'(N, L, G) :- integer(N), !, N > 0, '$ref_nth'(L, 1, N, G), !.
'$ref_call_nth'(N, L, G) :- '$ref_nth'(L, 1, N, G).
'$ref_nth'([E|_], I, I, E).
'$ref_nth'([_|T], I, N, E) :- J is I + 1, '$ref_nth'(T, J, N, E).
`
