package ref

import (
	"verif/internal/term"
)

func typeErr(typ string, culprit *T) *T {
	return term.C("error", term.C("type_error", term.A(typ), culprit), term.V(-1))
}
func domErr(dom string, culprit *T) *T {
	return term.C("error", term.C("domain_error", term.A(dom), culprit), term.V(-1))
}
func instErr() *T { return term.C("error", term.A("instantiation_error"), term.V(-1)) }
func existErr(name string, arity int) *T {
	return term.C("error", term.C("existence_error", term.A("procedure"), term.C("/", term.A(name), term.I(int64(arity)))), term.V(-1))
}
func permErr(action, typ string, culprit *T) *T {
	return term.C("error", term.C("permission_error", term.A(action), term.A(typ), culprit), term.V(-1))
}
func evalErr(what string) *T {
	return term.C("error", term.C("evaluation_error", term.A(what)), term.V(-1))
}

// callable checks the body-conversion rule of 7.6.2: a goal is converted before it is executed; a number
// (or other non-callable) in a control position makes the whole goal a type error.
func (m *Machine) bodyOK(g *T) bool {
	g = m.deref(g)
	switch g.K {
	case term.KVar:
		return true
	case term.KAtom:
		return true
	case term.KCmp:
		if (g.S == "," || g.S == ";" || g.S == "->") && len(g.Args) == 2 {
			return m.bodyOK(g.Args[0]) && m.bodyOK(g.Args[1])
		}
		return true
	default:
		return false
	}
}

// step executes the goal of fr. It returns ok=false for failure and a non-nil ball for an error.
func (m *Machine) step(fr *frame) (bool, *T) {
	m.frames = fr.next
	switch fr.kind {
	case fCutTo:
		m.cutTo(fr.a, false)
		return true, nil
	case fNegSuccess:
		// the negated goal has a solution: discard everything it left, undo its bindings and fail
		cp := m.cps[fr.a]
		m.undoTo(cp.trailMark)
		for i := fr.a; i < len(m.cps); i++ {
			m.releaseCP(&m.cps[i])
		}
		m.cps = m.cps[:fr.a]
		return false, nil
	case fCollect:
		col := fr.p.(*collector)
		col.results = append(col.results, m.rename(col.template, map[int64]*T{}))
		return false, nil
	case fPopCatch:
		return true, nil
	}
	g := m.deref(fr.goal)
	next, cutB, chain := fr.next, fr.cutB, fr.chain
	switch g.K {
	case term.KVar:
		return false, instErr()
	case term.KAtom, term.KCmp:
	default:
		return false, typeErr("callable", g)
	}
	name, n := g.S, len(g.Args)
	arg := func(i int) *T { return g.Args[i] }

	// control constructs (transparent to cut)
	switch {
	case name == "true" && n == 0:
		return true, nil
	case (name == "fail" || name == "false") && n == 0:
		return false, nil
	case name == "!" && n == 0:
		m.cutTo(cutB, true)
		return true, nil
	case name == "," && n == 2:
		m.frames = m.push(arg(0), m.push(arg(1), next, cutB, chain), cutB, chain)
		return true, nil
	case name == ";" && n == 2:
		l := m.deref(arg(0))
		if l.IsCmp("->", 2) {
			// if-then-else: the condition is opaque, then/else transparent
			b := len(m.cps)
			elseG, thenG := arg(1), l.Args[1]
			m.cps = append(m.cps, choicepoint{kind: cpGoal, trailMark: len(m.trail), fr: m.push(elseG, next, cutB, chain)})
			thenFr := m.push(thenG, next, cutB, chain)
			m.frames = &frame{goal: term.C("call", l.Args[0]), next: &frame{kind: fCutTo, a: b, next: thenFr, chain: chain}, cutB: len(m.cps), chain: chain}
			return true, nil
		}
		lg, rg := arg(0), arg(1)
		m.cps = append(m.cps, choicepoint{kind: cpGoal, trailMark: len(m.trail), fr: m.push(rg, next, cutB, chain)})
		m.frames = m.push(lg, next, cutB, chain)
		return true, nil
	case name == "->" && n == 2:
		b := len(m.cps)
		thenG := arg(1)
		thenFr := m.push(thenG, next, cutB, chain)
		m.frames = &frame{goal: term.C("call", arg(0)), next: &frame{kind: fCutTo, a: b, next: thenFr, chain: chain}, cutB: len(m.cps), chain: chain}
		return true, nil
	case name == "call" && n >= 1:
		goal := m.deref(arg(0))
		if n > 1 {
			switch goal.K {
			case term.KVar:
				return false, instErr()
			case term.KAtom, term.KCmp:
				args := append(append([]*T{}, goal.Args...), g.Args[1:]...)
				goal = term.C(goal.S, args...)
			default:
				return false, typeErr("callable", goal)
			}
		}
		if goal.K == term.KVar {
			return false, instErr()
		}
		if !goal.IsCallable() {
			return false, typeErr("callable", goal)
		}
		if !m.bodyOK(goal) {
			return false, typeErr("callable", m.Resolve(goal))
		}
		// opaque: cut inside is local
		m.frames = m.push(goal, next, len(m.cps), chain)
		return true, nil
	case name == "\\+" && n == 1:
		b := len(m.cps)
		m.cps = append(m.cps, choicepoint{kind: cpNegFail, trailMark: len(m.trail), fr: next})
		m.frames = &frame{goal: term.C("call", arg(0)), next: &frame{kind: fNegSuccess, a: b, chain: chain}, cutB: len(m.cps), chain: chain}
		return true, nil
	case name == "once" && n == 1:
		m.frames = m.push(term.C("->", arg(0), term.A("true")), next, cutB, chain)
		return true, nil
	case name == "catch" && n == 3:
		m.catchSeq++
		e := &catchEntry{catcher: arg(1), recovery: arg(2), trailMark: len(m.trail), cpHeight: len(m.cps), next: next, outer: chain, id: m.catchSeq}
		m.frames = &frame{goal: term.C("call", arg(0)), next: next, cutB: len(m.cps), chain: e}
		if m.Opt.CatchActiveInContinuation {
			m.Unsupported = "deviation model catch_active_in_continuation is not implemented"
		}
		// the continuation `next` keeps its own (outer) chain: once the goal exits the catch is inactive,
		// and it is active again when a choice point inside the goal is resumed (those frames carry e).
		return true, nil
	case name == "throw" && n == 1:
		b := m.deref(arg(0))
		if b.K == term.KVar {
			return false, instErr()
		}
		return false, m.Resolve(b)
	case name == "findall" && n == 3:
		return m.findall(arg(0), arg(1), arg(2), fr)
	case (name == "bagof" || name == "setof") && n == 3:
		return m.bagof(name == "setof", arg(0), arg(1), arg(2), fr)
	}

	if bi, ok := builtins[key(name, n)]; ok {
		return bi(m, g, fr)
	}

	// user-defined procedure
	p := m.DB.get(name, n, false)
	if p == nil {
		return false, existErr(name, n)
	}
	// logical update view: the clauses alive now
	snapshot := make([]*Clause, 0, len(p.clauses))
	for _, c := range p.clauses {
		if !c.erased {
			snapshot = append(snapshot, c)
		}
	}
	cp := choicepoint{kind: cpClauses, trailMark: len(m.trail), fr: fr, goal: g, clauses: snapshot, p: openKey(key(name, n))}
	m.openCalls[key(name, n)]++
	m.cps = append(m.cps, cp)
	if !m.tryClauses(&m.cps[len(m.cps)-1]) {
		return false, nil
	}
	return true, nil
}

// tryClauses tries the remaining clauses of the choice point on top of the stack; it removes the choice
// point when the last alternative is taken (or none is left).
func (m *Machine) tryClauses(cp *choicepoint) bool {
	h := len(m.cps) - 1 // height below this choice point = cut barrier of the clause bodies
	fr := cp.fr
	for cp.idx < len(cp.clauses) {
		c := cp.clauses[cp.idx]
		cp.idx++
		if cp.idx > 1 {
			m.ClauseRetries++
		}
		mp := map[int64]*T{}
		head := m.renameClause(c.Head, mp)
		mark := len(m.trail)
		if len(head.Args) > 0 {
			pairs := make([][2]*T, len(head.Args))
			for i := range head.Args {
				pairs[i] = [2]*T{head.Args[i], cp.goal.Args[i]}
			}
			m.noteSTO(pairs)
		}
		ok := true
		for i := range head.Args {
			if !m.unify(head.Args[i], cp.goal.Args[i]) {
				ok = false
				break
			}
		}
		if !ok {
			m.undoTo(mark)
			continue
		}
		body := m.renameClause(c.Body, mp)
		if cp.idx >= len(cp.clauses) {
			m.releaseCP(cp)
			m.cps = m.cps[:h]
		}
		if body.IsAtom("true") {
			m.frames = fr.next
		} else {
			m.frames = m.push(body, fr.next, h, fr.chain)
		}
		return true
	}
	m.releaseCP(cp)
	m.cps = m.cps[:h]
	return false
}

// renameClause renames the variables of a stored clause part (stored terms are never bound).
func (m *Machine) renameClause(t *T, mp map[int64]*T) *T {
	return term.Map(t, func(id int64) *T {
		v, ok := mp[id]
		if !ok {
			v = m.fresh()
			mp[id] = v
		}
		return v
	})
}

// --- all-solutions ------------------------------------------------------------------------------------

func (m *Machine) findall(template, goal, instances *T, fr *frame) (bool, *T) {
	if err := m.checkPartialList(instances); err != nil {
		return false, err
	}
	col := &collector{template: template}
	col.finish = func(m *Machine, results []*T, fr *frame) {
		m.frames = m.push(term.C("=", instances, term.L(results...)), fr.next, fr.cutB, fr.chain)
	}
	m.cps = append(m.cps, choicepoint{kind: cpCollectDone, trailMark: len(m.trail), fr: fr, p: col})
	m.frames = &frame{goal: term.C("call", goal), next: &frame{kind: fCollect, p: col, chain: fr.chain}, cutB: len(m.cps), chain: fr.chain}
	return true, nil
}

// checkPartialList: instances must be a partial list or a list (8.10.1.3 c).
func (m *Machine) checkPartialList(l *T) *T {
	t := m.deref(l)
	for t.IsCmp(".", 2) {
		t = m.deref(t.Args[1])
	}
	if t.K == term.KVar || t.IsAtom("[]") {
		return nil
	}
	return typeErr("list", m.Resolve(l))
}

func (m *Machine) bagof(set bool, template, goal, instances *T, fr *frame) (bool, *T) {
	if err := m.checkPartialList(instances); err != nil {
		return false, err
	}
	// strip ^
	g := m.deref(goal)
	exVars := map[int64]bool{}
	for g.IsCmp("^", 2) {
		for _, v := range term.VarsOf(m.Resolve(g.Args[0])) {
			exVars[v] = true
		}
		g = m.deref(g.Args[1])
	}
	if g.K == term.KVar {
		return false, instErr()
	}
	if !g.IsCallable() {
		return false, typeErr("callable", m.Resolve(g))
	}
	for _, v := range term.VarsOf(m.Resolve(template)) {
		exVars[v] = true
	}
	var wv []*T
	for _, v := range term.VarsOf(m.Resolve(g)) {
		if !exVars[v] {
			wv = append(wv, term.V(v))
		}
	}
	witness := term.C("w", wv...)
	if len(wv) == 0 {
		witness = term.A("w")
	}
	col := &collector{template: term.C("-", witness, template)}
	col.finish = func(m *Machine, results []*T, fr *frame) {
		if len(results) == 0 {
			// fail
			m.frames = &frame{goal: term.A("fail"), next: fr.next, cutB: fr.cutB, chain: fr.chain}
			return
		}
		// partition by variance of the witness, in order of first occurrence
		var alts []*T
		rest := results
		for len(rest) > 0 {
			w0 := rest[0].Args[0]
			var group, remain []*T
			for _, r := range rest {
				same := term.Variant(w0, r.Args[0])
				if m.Opt.OneWayVariant {
					same = oneWayVariant(w0, r.Args[0])
				}
				if same {
					group = append(group, r)
				} else {
					remain = append(remain, r)
				}
			}
			rest = remain
			m.Groups++
			var goals []*T
			var ts []*T
			for _, r := range group {
				goals = append(goals, term.C("=", witness, r.Args[0]))
				ts = append(ts, r.Args[1])
			}
			if set {
				goals = append(goals, term.C("$sort_unify", term.L(ts...), instances))
			} else {
				goals = append(goals, term.C("=", instances, term.L(ts...)))
			}
			alts = append(alts, conj(goals))
		}
		if len(alts) > 1 {
			// the ORDER in which the groups are returned is open (ISO and implementations differ). It becomes
			// observable as list order when an enclosing findall/bagof/setof is collecting this call's solutions.
			for i := range m.cps {
				if m.cps[i].kind == cpCollectDone {
					m.GroupOrderObservable = true
				}
			}
			m.cps = append(m.cps, choicepoint{kind: cpAlts, trailMark: len(m.trail), fr: fr, p: alts[1:]})
		}
		m.frames = &frame{goal: alts[0], next: fr.next, cutB: len(m.cps), chain: fr.chain}
	}
	m.cps = append(m.cps, choicepoint{kind: cpCollectDone, trailMark: len(m.trail), fr: fr, p: col})
	m.frames = &frame{goal: term.C("call", g), next: &frame{kind: fCollect, p: col, chain: fr.chain}, cutB: len(m.cps), chain: fr.chain}
	return true, nil
}

func conj(gs []*T) *T {
	if len(gs) == 0 {
		return term.A("true")
	}
	t := gs[len(gs)-1]
	for i := len(gs) - 2; i >= 0; i-- {
		t = term.C(",", gs[i], t)
	}
	return t
}

// oneWayVariant: b is an instance of a by a variable-to-variable mapping that need not be injective
// (deviation model only).
func oneWayVariant(a, b *T) bool {
	f := map[int64]int64{}
	var w func(a, b *T) bool
	w = func(a, b *T) bool {
		if a.K != b.K {
			return false
		}
		switch a.K {
		case term.KVar:
			if x, ok := f[a.I]; ok {
				return x == b.I
			}
			f[a.I] = b.I
			return true
		case term.KCmp:
			if a.S != b.S || len(a.Args) != len(b.Args) {
				return false
			}
			for i := range a.Args {
				if !w(a.Args[i], b.Args[i]) {
					return false
				}
			}
			return true
		default:
			return term.Equal(a, b)
		}
	}
	return w(a, b)
}
