package ref

import "testing"

func TestExamples(t *testing.T) {
	if err := SelfTest(); err != nil {
		t.Fatal(err)
	}
}
