package ref

import (
	"fmt"

	"verif/internal/term"
)

// DCGTransform translates a grammar rule (H --> B) into a clause following the 2019 ISO draft
// (dcg_rule/dcg_body). Fresh variables are numbered above every variable of the rule.
func DCGTransform(rule *T) (*T, error) {
	d := &dcg{}
	for _, v := range term.VarsOf(rule) {
		if v >= d.next {
			d.next = v + 1
		}
	}
	head, body := rule.Args[0], rule.Args[1]
	s0, s := d.fresh(), d.fresh()
	if head.IsCmp(",", 2) { // push-back
		nt, pb := head.Args[0], head.Args[1]
		s1 := d.fresh()
		h, err := d.nonTerminal(nt, s0, s)
		if err != nil {
			return nil, err
		}
		b1, err := d.body(body, s0, s1)
		if err != nil {
			return nil, err
		}
		b2, err := d.terminals(pb, s, s1)
		if err != nil {
			return nil, err
		}
		return term.C(":-", h, term.C(",", b1, b2)), nil
	}
	h, err := d.nonTerminal(head, s0, s)
	if err != nil {
		return nil, err
	}
	b, err := d.body(body, s0, s)
	if err != nil {
		return nil, err
	}
	return term.C(":-", h, b), nil
}

type dcg struct{ next int64 }

func (d *dcg) fresh() *T {
	v := term.V(d.next)
	d.next++
	return v
}

func (d *dcg) nonTerminal(nt, s0, s *T) (*T, error) {
	if !nt.IsCallable() {
		return nil, fmt.Errorf("dcg: bad non-terminal %s", nt)
	}
	args := append(append([]*T{}, nt.Args...), s0, s)
	return term.C(nt.S, args...), nil
}

func (d *dcg) terminals(list, s0, s *T) (*T, error) {
	es, tail := term.ListElems(list)
	if !tail.IsAtom("[]") {
		return nil, fmt.Errorf("dcg: bad terminal list %s", list)
	}
	return term.C("=", s0, term.PL(s, es...)), nil
}

func (d *dcg) body(b, s0, s *T) (*T, error) {
	switch {
	case b.K == term.KVar:
		return term.C("phrase", b, s0, s), nil
	case b.IsCmp(",", 2):
		s1 := d.fresh()
		l, err := d.body(b.Args[0], s0, s1)
		if err != nil {
			return nil, err
		}
		r, err := d.body(b.Args[1], s1, s)
		if err != nil {
			return nil, err
		}
		return term.C(",", l, r), nil
	case b.IsCmp(";", 2) || b.IsCmp("|", 2):
		l, err := d.body(b.Args[0], s0, s)
		if err != nil {
			return nil, err
		}
		r, err := d.body(b.Args[1], s0, s)
		if err != nil {
			return nil, err
		}
		return term.C(";", l, r), nil
	case b.IsCmp("->", 2):
		s1 := d.fresh()
		l, err := d.body(b.Args[0], s0, s1)
		if err != nil {
			return nil, err
		}
		r, err := d.body(b.Args[1], s1, s)
		if err != nil {
			return nil, err
		}
		return term.C("->", l, r), nil
	case b.IsCmp("\\+", 1):
		l, err := d.body(b.Args[0], s0, d.fresh())
		if err != nil {
			return nil, err
		}
		return term.C(",", term.C("\\+", l), term.C("=", s0, s)), nil
	case b.IsCmp("{}", 1):
		return term.C(",", term.C("call", b.Args[0]), term.C("=", s0, s)), nil
	case b.IsAtom("{}"):
		return term.C("=", s0, s), nil
	case b.IsAtom("!"):
		return term.C(",", term.A("!"), term.C("=", s0, s)), nil
	case b.IsAtom("[]"):
		return term.C("=", s0, s), nil
	case b.IsList():
		return d.terminals(b, s0, s)
	case b.K == term.KCmp && b.S == "call":
		args := append(append([]*T{}, b.Args...), s0, s)
		return term.C("call", args...), nil
	case b.IsCallable():
		return d.nonTerminal(b, s0, s)
	}
	return nil, fmt.Errorf("dcg: bad body %s", b)
}

func init() {
	builtins["phrase/2"] = func(m *Machine, g *T, fr *frame) (bool, *T) {
		return phrase(m, g.Args[0], g.Args[1], term.Nil, fr)
	}
	builtins["phrase/3"] = func(m *Machine, g *T, fr *frame) (bool, *T) {
		return phrase(m, g.Args[0], g.Args[1], g.Args[2], fr)
	}
}

func phrase(m *Machine, body, s0, s *T, fr *frame) (bool, *T) {
	b := m.Resolve(body)
	if b.K == term.KVar {
		return false, instErr()
	}
	if !b.IsCallable() {
		return false, typeErr("callable", b)
	}
	d := &dcg{next: m.nextVar + 1}
	goal, err := d.body(b, s0, s)
	m.nextVar = d.next
	if err != nil {
		return false, typeErr("callable", b)
	}
	m.frames = m.push(term.C("call", goal), fr.next, len(m.cps), fr.chain)
	return true, nil
}
