package ref

import (
	"math/big"
	"sort"

	"verif/internal/term"
)

type builtin func(m *Machine, g *T, fr *frame) (bool, *T)

var builtins map[string]builtin

func init() {
	builtins = map[string]builtin{
		"=/2": func(m *Machine, g *T, fr *frame) (bool, *T) {
			m.noteSTO([][2]*T{{g.Args[0], g.Args[1]}})
			return m.unify(g.Args[0], g.Args[1]), nil
		},
		"\\=/2": func(m *Machine, g *T, fr *frame) (bool, *T) {
			m.noteSTO([][2]*T{{g.Args[0], g.Args[1]}})
			mark := len(m.trail)
			ok := m.unify(g.Args[0], g.Args[1])
			m.undoTo(mark)
			return !ok, nil
		},
		"unify_with_occurs_check/2": func(m *Machine, g *T, fr *frame) (bool, *T) {
			mark := len(m.trail)
			if m.unifyOC(g.Args[0], g.Args[1]) {
				return true, nil
			}
			m.undoTo(mark)
			return false, nil
		},
		"==/2":   cmpBI(func(c int) bool { return c == 0 }),
		"\\==/2": cmpBI(func(c int) bool { return c != 0 }),
		"@</2":   cmpBI(func(c int) bool { return c < 0 }),
		"@=</2":  cmpBI(func(c int) bool { return c <= 0 }),
		"@>/2":   cmpBI(func(c int) bool { return c > 0 }),
		"@>=/2":  cmpBI(func(c int) bool { return c >= 0 }),
		"compare/3": func(m *Machine, g *T, fr *frame) (bool, *T) {
			c, h := term.Compare(m.Resolve(g.Args[1]), m.Resolve(g.Args[2]))
			if h {
				m.Hinged = true
			}
			return m.unify(g.Args[0], term.A([]string{"<", "=", ">"}[c+1])), nil
		},
		"var/1":      typeBI(func(t *T) bool { return t.K == term.KVar }),
		"nonvar/1":   typeBI(func(t *T) bool { return t.K != term.KVar }),
		"atom/1":     typeBI(func(t *T) bool { return t.K == term.KAtom }),
		"integer/1":  typeBI(func(t *T) bool { return t.K == term.KInt }),
		"float/1":    typeBI(func(t *T) bool { return t.K == term.KFloat }),
		"number/1":   typeBI(func(t *T) bool { return t.K == term.KInt || t.K == term.KFloat }),
		"atomic/1":   typeBI(func(t *T) bool { return t.K == term.KAtom || t.K == term.KInt || t.K == term.KFloat }),
		"compound/1": typeBI(func(t *T) bool { return t.K == term.KCmp }),
		"callable/1": typeBI(func(t *T) bool { return t.K == term.KCmp || t.K == term.KAtom }),
		"w/1": func(m *Machine, g *T, fr *frame) (bool, *T) {
			m.Events = append(m.Events, Event{T: m.Resolve(g.Args[0])})
			return true, nil
		},
		"is/2": func(m *Machine, g *T, fr *frame) (bool, *T) {
			v, err := m.eval(g.Args[1])
			if err != nil {
				return false, err
			}
			return m.unify(g.Args[0], v), nil
		},
		"=:=/2":     arithCmp(func(c int) bool { return c == 0 }),
		"=\\=/2":    arithCmp(func(c int) bool { return c != 0 }),
		"</2":       arithCmp(func(c int) bool { return c < 0 }),
		"=</2":      arithCmp(func(c int) bool { return c <= 0 }),
		">/2":       arithCmp(func(c int) bool { return c > 0 }),
		">=/2":      arithCmp(func(c int) bool { return c >= 0 }),
		"between/3": biBetween,
		"copy_term/2": func(m *Machine, g *T, fr *frame) (bool, *T) {
			return m.unify(g.Args[1], m.rename(g.Args[0], map[int64]*T{})), nil
		},
		"atom_length/2": func(m *Machine, g *T, fr *frame) (bool, *T) {
			a := m.deref(g.Args[0])
			l := m.deref(g.Args[1])
			switch {
			case a.K == term.KVar:
				return false, instErr()
			case a.K != term.KAtom:
				return false, typeErr("atom", m.Resolve(a))
			case l.K != term.KVar && l.K != term.KInt:
				return false, typeErr("integer", m.Resolve(l))
			case l.K == term.KInt && l.I < 0:
				return false, domErr("not_less_than_zero", l)
			}
			return m.unify(l, term.I(int64(len([]rune(a.S))))), nil
		},
		"arg/3": func(m *Machine, g *T, fr *frame) (bool, *T) {
			n, t := m.deref(g.Args[0]), m.deref(g.Args[1])
			switch {
			case t.K == term.KVar:
				return false, instErr()
			case t.K != term.KCmp:
				return false, typeErr("compound", m.Resolve(t))
			case n.K == term.KVar:
				m.Unsupported = "arg/3 with unbound N"
				return false, nil
			case n.K != term.KInt:
				return false, typeErr("integer", m.Resolve(n))
			case n.I < 0:
				return false, domErr("not_less_than_zero", n)
			}
			if n.I < 1 || int(n.I) > len(t.Args) {
				return false, nil
			}
			return m.unify(g.Args[2], t.Args[n.I-1]), nil
		},
		"functor/3": func(m *Machine, g *T, fr *frame) (bool, *T) {
			t := m.deref(g.Args[0])
			switch t.K {
			case term.KVar:
				name, ar := m.deref(g.Args[1]), m.deref(g.Args[2])
				if name.K == term.KVar || ar.K == term.KVar {
					return false, instErr()
				}
				if ar.K != term.KInt {
					return false, typeErr("integer", m.Resolve(ar))
				}
				if ar.I < 0 {
					return false, domErr("not_less_than_zero", ar)
				}
				if ar.I == 0 {
					if name.K == term.KCmp {
						return false, typeErr("atomic", m.Resolve(name))
					}
					return m.unify(t, name), nil
				}
				if name.K == term.KCmp {
					return false, typeErr("atomic", m.Resolve(name))
				}
				if name.K != term.KAtom {
					return false, typeErr("atom", m.Resolve(name))
				}
				if ar.I > 64 {
					m.Unsupported = "functor/3 with large arity"
					return false, nil
				}
				args := make([]*T, ar.I)
				for i := range args {
					args[i] = m.fresh()
				}
				return m.unify(t, term.C(name.S, args...)), nil
			case term.KCmp:
				return m.unify(g.Args[1], term.A(t.S)) && m.unify(g.Args[2], term.I(int64(len(t.Args)))), nil
			default:
				return m.unify(g.Args[1], t) && m.unify(g.Args[2], term.I(0)), nil
			}
		},
		"asserta/1":    func(m *Machine, g *T, fr *frame) (bool, *T) { return m.assert(g.Args[0], true) },
		"assertz/1":    func(m *Machine, g *T, fr *frame) (bool, *T) { return m.assert(g.Args[0], false) },
		"retract/1":    biRetract,
		"retractall/1": biRetractAll,
		"abolish/1":    biAbolish,
		"clause/2":     biClause,
		"sort/2": func(m *Machine, g *T, fr *frame) (bool, *T) {
			es, err := m.properList(g.Args[0])
			if err != nil {
				return false, err
			}
			return m.unify(g.Args[1], term.L(m.sortUnique(es)...)), nil
		},
		"$sort_unify/2": func(m *Machine, g *T, fr *frame) (bool, *T) {
			es, _ := term.ListElems(m.Resolve(g.Args[0]))
			return m.unify(g.Args[1], term.L(m.sortUnique(es)...)), nil
		},
		"length/2": func(m *Machine, g *T, fr *frame) (bool, *T) {
			es, tail := term.ListElems(m.Resolve(g.Args[0]))
			if !tail.IsAtom("[]") {
				m.Unsupported = "length/2 of a partial list"
				return false, nil
			}
			return m.unify(g.Args[1], term.I(int64(len(es)))), nil
		},
	}
}

func cmpBI(f func(int) bool) builtin {
	return func(m *Machine, g *T, fr *frame) (bool, *T) {
		c, h := term.Compare(m.Resolve(g.Args[0]), m.Resolve(g.Args[1]))
		if h {
			m.Hinged = true
		}
		return f(c), nil
	}
}

func typeBI(f func(*T) bool) builtin {
	return func(m *Machine, g *T, fr *frame) (bool, *T) { return f(m.deref(g.Args[0])), nil }
}

func (m *Machine) sortUnique(es []*T) []*T {
	for i := range es {
		for j := i + 1; j < len(es); j++ {
			if _, h := term.Compare(es[i], es[j]); h {
				m.Hinged = true
			}
		}
	}
	return term.SortUnique(es)
}

func (m *Machine) properList(l *T) ([]*T, *T) {
	r := m.Resolve(l)
	es, tail := term.ListElems(r)
	if tail.K == term.KVar {
		return nil, instErr()
	}
	if !tail.IsAtom("[]") {
		return nil, typeErr("list", r)
	}
	return es, nil
}

// --- arithmetic (integers only; enough for generated control programs) --------------------------------

var (
	minI = big.NewInt(-1 << 63)
	maxI = new(big.Int).SetUint64(1<<63 - 1)
)

func (m *Machine) eval(e *T) (*T, *T) {
	e = m.deref(e)
	switch e.K {
	case term.KVar:
		return nil, instErr()
	case term.KInt:
		return e, nil
	case term.KFloat:
		m.Unsupported = "float arithmetic"
		return e, nil
	case term.KAtom:
		return nil, typeErr("evaluable", term.C("/", e, term.I(0)))
	case term.KCmp:
		// the functor is checked before the arguments are evaluated
		switch key(e.S, len(e.Args)) {
		case "+/2", "-/2", "*/2", "-/1", "+/1", "///2", "mod/2", "abs/1", "min/2", "max/2":
		default:
			if knownEvaluable[key(e.S, len(e.Args))] {
				// an evaluable functor the reference does not model: the case is not asserted
				m.Unsupported = "arithmetic functor " + key(e.S, len(e.Args))
				return nil, instErr()
			}
			return nil, typeErr("evaluable", term.C("/", term.A(e.S), term.I(int64(len(e.Args)))))
		}
		var vals []*big.Int
		for _, a := range e.Args {
			v, err := m.eval(a)
			if err != nil {
				return nil, err
			}
			if v.K != term.KInt {
				m.Unsupported = "float arithmetic"
				return v, nil
			}
			vals = append(vals, big.NewInt(v.I))
		}
		r := new(big.Int)
		switch key(e.S, len(e.Args)) {
		case "+/2":
			r.Add(vals[0], vals[1])
		case "-/2":
			r.Sub(vals[0], vals[1])
		case "*/2":
			r.Mul(vals[0], vals[1])
		case "-/1":
			r.Neg(vals[0])
		case "+/1":
			r.Set(vals[0])
		case "///2":
			if vals[1].Sign() == 0 {
				return nil, evalErr("zero_divisor")
			}
			r.Quo(vals[0], vals[1])
		case "mod/2":
			if vals[1].Sign() == 0 {
				return nil, evalErr("zero_divisor")
			}
			r.Mod(vals[0], vals[1]) // Euclidean; fix sign to follow the divisor
			if r.Sign() != 0 && vals[1].Sign() < 0 {
				r.Add(r, vals[1])
			}
		case "abs/1":
			r.Abs(vals[0])
		case "min/2":
			if vals[0].Cmp(vals[1]) <= 0 {
				r.Set(vals[0])
			} else {
				r.Set(vals[1])
			}
		case "max/2":
			if vals[0].Cmp(vals[1]) >= 0 {
				r.Set(vals[0])
			} else {
				r.Set(vals[1])
			}
		default:
			return nil, typeErr("evaluable", term.C("/", term.A(e.S), term.I(int64(len(e.Args)))))
		}
		if r.Cmp(minI) < 0 || r.Cmp(maxI) > 0 {
			return nil, evalErr("int_overflow")
		}
		return term.I(r.Int64()), nil
	}
	return nil, typeErr("evaluable", e)
}

// evaluable functors of ISO (and common extensions) that the reference does not compute.
var knownEvaluable = map[string]bool{
	"//2": true, "**/2": true, "^/2": true, ">>/2": true, "<</2": true, "/\\/2": true, "\\//2": true, "xor/2": true,
	"rem/2": true, "div/2": true, "sign/1": true, "\\/1": true, "float/1": true, "integer/1": true, "truncate/1": true,
	"round/1": true, "ceiling/1": true, "floor/1": true, "sqrt/1": true, "sin/1": true, "cos/1": true, "atan/1": true,
	"exp/1": true, "log/1": true, "float_integer_part/1": true, "float_fractional_part/1": true, "atan2/2": true,
	"tan/1": true, "asin/1": true, "acos/1": true, "gcd/2": true, "msb/1": true, "succ/1": true, "plus/2": true,
	"truncate/2": true, "cot/1": true, "sinh/1": true, "cosh/1": true, "tanh/1": true, "asinh/1": true, "acosh/1": true, "atanh/1": true,
}

func arithCmp(f func(int) bool) builtin {
	return func(m *Machine, g *T, fr *frame) (bool, *T) {
		a, err := m.eval(g.Args[0])
		if err != nil {
			return false, err
		}
		b, err := m.eval(g.Args[1])
		if err != nil {
			return false, err
		}
		if a.K != term.KInt || b.K != term.KInt {
			m.Unsupported = "float arithmetic"
			return false, nil
		}
		c := 0
		if a.I < b.I {
			c = -1
		} else if a.I > b.I {
			c = 1
		}
		return f(c), nil
	}
}

func biBetween(m *Machine, g *T, fr *frame) (bool, *T) {
	lo, hi, x := m.deref(g.Args[0]), m.deref(g.Args[1]), m.deref(g.Args[2])
	if lo.K == term.KVar || hi.K == term.KVar {
		return false, instErr()
	}
	if lo.K != term.KInt {
		return false, typeErr("integer", m.Resolve(lo))
	}
	if hi.K != term.KInt {
		return false, typeErr("integer", m.Resolve(hi))
	}
	switch x.K {
	case term.KInt:
		return lo.I <= x.I && x.I <= hi.I, nil
	case term.KVar:
	default:
		return false, typeErr("integer", m.Resolve(x))
	}
	if lo.I > hi.I {
		return false, nil
	}
	if lo.I < hi.I {
		m.cps = append(m.cps, choicepoint{kind: cpBetween, trailMark: len(m.trail), fr: fr, n: lo.I + 1, p: [2]*T{hi, x}})
	}
	return m.unify(x, lo), nil
}

func (m *Machine) retryBetween(cp *choicepoint) bool {
	pl := cp.p.([2]*T)
	hi, x := pl[0], pl[1]
	v := cp.n
	fr := cp.fr
	if v >= hi.I {
		m.cps = m.cps[:len(m.cps)-1]
	} else {
		cp.n = v + 1
	}
	m.frames = fr.next
	return m.unify(x, term.I(v))
}

// --- database -----------------------------------------------------------------------------------------

func (m *Machine) noteUpdate(name string, arity int) {
	if m.openCalls[key(name, arity)] > 0 {
		m.OpenUpdates++
	}
}

func (m *Machine) clauseArg(c *T) (head, body *T, err *T) {
	c = m.deref(c)
	if c.K == term.KVar {
		return nil, nil, instErr()
	}
	head, body = c, term.A("true")
	if c.IsCmp(":-", 2) {
		head, body = m.deref(c.Args[0]), m.deref(c.Args[1])
	}
	if head.K == term.KVar {
		return nil, nil, instErr()
	}
	if !head.IsCallable() {
		return nil, nil, typeErr("callable", m.Resolve(head))
	}
	return head, body, nil
}

var controlPreds = map[string]bool{",/2": true, ";/2": true, "->/2": true, "!/0": true, "call/1": true, "true/0": true, "fail/0": true, "=/2": true, "catch/3": true, "findall/3": true}

func (m *Machine) assert(c *T, front bool) (bool, *T) {
	head, body, err := m.clauseArg(c)
	if err != nil {
		return false, err
	}
	if body.K == term.KVar {
		body = term.C("call", body)
	} else if !body.IsCallable() || !m.bodyOK(body) {
		return false, typeErr("callable", m.Resolve(body))
	}
	if _, isBI := builtins[key(head.S, len(head.Args))]; isBI || controlPreds[key(head.S, len(head.Args))] {
		return false, permErr("modify", "static_procedure", term.C("/", term.A(head.S), term.I(int64(len(head.Args)))))
	}
	p := m.DB.get(head.S, len(head.Args), true)
	if !p.dynamic && len(p.clauses) > 0 {
		return false, permErr("modify", "static_procedure", term.C("/", term.A(head.S), term.I(int64(len(head.Args)))))
	}
	p.dynamic = true
	mp := map[int64]*T{}
	cl := &Clause{Head: m.rename(head, mp), Body: m.rename(body, mp)}
	m.noteUpdate(head.S, len(head.Args))
	if front {
		p.clauses = append([]*Clause{cl}, p.clauses...)
	} else {
		p.clauses = append(p.clauses, cl)
	}
	return true, nil
}

type retractState struct {
	pred     *pred
	snapshot []*Clause
	idx      int
	head     *T
	body     *T
}

func biRetract(m *Machine, g *T, fr *frame) (bool, *T) {
	head, body, err := m.clauseArg(g.Args[0])
	if err != nil {
		return false, err
	}
	p := m.DB.get(head.S, len(head.Args), false)
	if p == nil {
		if _, isBI := builtins[key(head.S, len(head.Args))]; isBI || controlPreds[key(head.S, len(head.Args))] {
			return false, permErr("modify", "static_procedure", term.C("/", term.A(head.S), term.I(int64(len(head.Args)))))
		}
		return false, nil
	}
	if !p.dynamic {
		return false, permErr("modify", "static_procedure", term.C("/", term.A(head.S), term.I(int64(len(head.Args)))))
	}
	st := &retractState{pred: p, head: head, body: body}
	for _, c := range p.clauses {
		if !c.erased {
			st.snapshot = append(st.snapshot, c)
		}
	}
	m.openCalls[key(p.name, p.arity)]++
	m.cps = append(m.cps, choicepoint{kind: cpRetract, trailMark: len(m.trail), fr: fr, p: st})
	return m.retryRetract(&m.cps[len(m.cps)-1]), nil
}

func (m *Machine) retryRetract(cp *choicepoint) bool {
	st := cp.p.(*retractState)
	fr := cp.fr
	h := len(m.cps) - 1
	for st.idx < len(st.snapshot) {
		c := st.snapshot[st.idx]
		st.idx++
		if c.erased && !m.Opt.RetractErasedSucceeds {
			continue
		}
		mp := map[int64]*T{}
		mark := len(m.trail)
		if m.unify(st.head, m.renameClause(c.Head, mp)) && m.unify(st.body, m.renameClause(c.Body, mp)) {
			if !c.erased {
				c.erased = true
				m.openCalls[key(st.pred.name, st.pred.arity)]-- // do not count ourselves
				m.noteUpdate(st.pred.name, st.pred.arity)
				m.openCalls[key(st.pred.name, st.pred.arity)]++
				// physically remove
				for i, x := range st.pred.clauses {
					if x == c {
						st.pred.clauses = append(append([]*Clause{}, st.pred.clauses[:i]...), st.pred.clauses[i+1:]...)
						break
					}
				}
			}
			if st.idx >= len(st.snapshot) {
				m.openCalls[key(st.pred.name, st.pred.arity)]--
				m.cps = m.cps[:h]
			}
			m.frames = fr.next
			return true
		}
		m.undoTo(mark)
	}
	m.openCalls[key(st.pred.name, st.pred.arity)]--
	m.cps = m.cps[:h]
	return false
}

func biRetractAll(m *Machine, g *T, fr *frame) (bool, *T) {
	head := m.deref(g.Args[0])
	if head.K == term.KVar {
		return false, instErr()
	}
	if !head.IsCallable() {
		return false, typeErr("callable", m.Resolve(head))
	}
	p := m.DB.get(head.S, len(head.Args), false)
	if p == nil {
		return true, nil
	}
	if !p.dynamic {
		return false, permErr("modify", "static_procedure", term.C("/", term.A(head.S), term.I(int64(len(head.Args)))))
	}
	var keep []*Clause
	for _, c := range p.clauses {
		mark := len(m.trail)
		if !c.erased && m.unify(head, m.renameClause(c.Head, map[int64]*T{})) {
			c.erased = true
			m.noteUpdate(p.name, p.arity)
		} else {
			keep = append(keep, c)
		}
		m.undoTo(mark)
	}
	p.clauses = keep
	return true, nil
}

func biAbolish(m *Machine, g *T, fr *frame) (bool, *T) {
	pi := m.deref(g.Args[0])
	if pi.K == term.KVar {
		return false, instErr()
	}
	if !pi.IsCmp("/", 2) {
		return false, typeErr("predicate_indicator", m.Resolve(pi))
	}
	n, a := m.deref(pi.Args[0]), m.deref(pi.Args[1])
	if n.K == term.KVar || a.K == term.KVar {
		return false, instErr()
	}
	if n.K != term.KAtom {
		return false, typeErr("atom", n)
	}
	if a.K != term.KInt {
		return false, typeErr("integer", a)
	}
	if a.I < 0 {
		return false, domErr("not_less_than_zero", a)
	}
	k := key(n.S, int(a.I))
	if _, isBI := builtins[k]; isBI || controlPreds[k] {
		return false, permErr("modify", "static_procedure", m.Resolve(pi))
	}
	p := m.DB.preds[k]
	if p == nil {
		// ISO 8.9.4: abolish of a procedure that does not exist succeeds. The engine under test raises a
		// permission error instead; the properties do not cover it, so the case is not asserted.
		m.Unsupported = "abolish/1 of a procedure that does not exist"
		return true, nil
	}
	if !p.dynamic {
		return false, permErr("modify", "static_procedure", m.Resolve(pi))
	}
	for _, c := range p.clauses {
		c.erased = true
	}
	m.noteUpdate(p.name, p.arity)
	delete(m.DB.preds, k)
	return true, nil
}

type clauseState struct {
	snapshot []*Clause
	idx      int
	head     *T
	body     *T
}

func biClause(m *Machine, g *T, fr *frame) (bool, *T) {
	head, body := m.deref(g.Args[0]), m.deref(g.Args[1])
	if head.K == term.KVar {
		return false, instErr()
	}
	if !head.IsCallable() {
		return false, typeErr("callable", m.Resolve(head))
	}
	if body.K != term.KVar && !body.IsCallable() {
		return false, typeErr("callable", m.Resolve(body))
	}
	k := key(head.S, len(head.Args))
	p := m.DB.preds[k]
	if p == nil {
		if _, isBI := builtins[k]; isBI || controlPreds[k] {
			return false, permErr("access", "private_procedure", term.C("/", term.A(head.S), term.I(int64(len(head.Args)))))
		}
		return false, nil
	}
	if !p.dynamic {
		return false, permErr("access", "private_procedure", term.C("/", term.A(head.S), term.I(int64(len(head.Args)))))
	}
	st := &clauseState{head: head, body: body}
	for _, c := range p.clauses {
		if !c.erased {
			st.snapshot = append(st.snapshot, c)
		}
	}
	m.cps = append(m.cps, choicepoint{kind: cpClauseBI, trailMark: len(m.trail), fr: fr, p: st})
	return m.retryClauseBI(&m.cps[len(m.cps)-1]), nil
}

func (m *Machine) retryClauseBI(cp *choicepoint) bool {
	st := cp.p.(*clauseState)
	fr := cp.fr
	h := len(m.cps) - 1
	for st.idx < len(st.snapshot) {
		c := st.snapshot[st.idx]
		st.idx++
		mp := map[int64]*T{}
		mark := len(m.trail)
		if m.unify(st.head, m.renameClause(c.Head, mp)) && m.unify(st.body, m.renameClause(c.Body, mp)) {
			if st.idx >= len(st.snapshot) {
				m.cps = m.cps[:h]
			}
			m.frames = fr.next
			return true
		}
		m.undoTo(mark)
	}
	m.cps = m.cps[:h]
	return false
}

var _ = sort.Ints
