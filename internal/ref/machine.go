// Package ref is the executable specification used by the differential oracles: a deliberately naive
// ISO Prolog interpreter (explicit goal list, explicit choice-point stack, trail, generation-stamped
// database). It shares no code and no design with the engine under test.
package ref

import (
	"fmt"

	"verif/internal/term"
)

type T = term.Term

// Clause is a stored clause.
type Clause struct {
	Head, Body *T
	erased     bool
}

type pred struct {
	name    string
	arity   int
	clauses []*Clause
	dynamic bool
}

// DB is the clause database.
type DB struct {
	preds map[string]*pred
	order []string
}

func key(name string, arity int) string { return fmt.Sprintf("%s/%d", name, arity) }

func NewDB() *DB { return &DB{preds: map[string]*pred{}} }

func (db *DB) get(name string, arity int, create bool) *pred {
	k := key(name, arity)
	p := db.preds[k]
	if p == nil && create {
		p = &pred{name: name, arity: arity}
		db.preds[k] = p
		db.order = append(db.order, k)
	}
	return p
}

// Clone copies the database (clauses are shared: they are immutable apart from the erased flag, which
// is copied too).
func (db *DB) Clone() *DB {
	n := NewDB()
	for _, k := range db.order {
		p := db.preds[k]
		if p == nil {
			continue
		}
		q := &pred{name: p.name, arity: p.arity, dynamic: p.dynamic}
		for _, c := range p.clauses {
			cc := *c
			q.clauses = append(q.clauses, &cc)
		}
		n.preds[k] = q
		n.order = append(n.order, k)
	}
	return n
}

// SetDynamic declares a dynamic procedure.
func (db *DB) SetDynamic(name string, arity int) { db.get(name, arity, true).dynamic = true }

// headBody splits a clause term.
func headBody(c *T) (*T, *T) {
	if c.IsCmp(":-", 2) {
		return c.Args[0], c.Args[1]
	}
	return c, term.A("true")
}

// Add appends a clause term (Head or Head :- Body) as consult does. Top-level disjunctions stay as they are
// (the reference engine runs ;/2 directly).
func (db *DB) Add(c *T) error {
	h, b := headBody(c)
	if !h.IsCallable() {
		return fmt.Errorf("ref: bad clause head %s", h)
	}
	p := db.get(h.S, len(h.Args), true)
	p.clauses = append(p.clauses, &Clause{Head: h, Body: b})
	return nil
}

// Listing returns the clauses of a procedure as terms, in order (nil,false if it does not exist).
func (db *DB) Listing(name string, arity int) ([]*T, bool) {
	p := db.get(name, arity, false)
	if p == nil {
		return nil, false
	}
	var out []*T
	for _, c := range p.clauses {
		out = append(out, term.C(":-", c.Head, c.Body))
	}
	return out, true
}

// Options select between behaviours ISO leaves open (the oracle accepts either) and switch on the named
// deviation models used to recognise known findings.
type Options struct {
	// RetractErasedSucceeds: an open retract/1 that reaches a snapshot clause which was erased meanwhile
	// succeeds without removing anything (true) or skips it (false).
	RetractErasedSucceeds bool
	// CatchActiveInContinuation is the deviation model "a catch/3 stays active while its continuation runs".
	CatchActiveInContinuation bool
	// OneWayVariant is the deviation model "bagof/setof group witnesses by one-directional matching".
	OneWayVariant bool
}

// Event is one logged w/1 call.
type Event struct {
	T *T
}

type catchEntry struct {
	catcher, recovery *T
	trailMark         int
	cpHeight          int
	next              *frame // continuation after the catch/3 goal
	outer             *catchEntry
	cutB              int // cut barrier of the clause that called catch/3 (for the continuation: stored in next)
	id                int
}

type frame struct {
	goal  *T
	next  *frame
	cutB  int // choice-point height to cut back to
	chain *catchEntry
	// special frames
	kind int
	a    int         // kind-specific integer
	p    interface{} // kind-specific payload
}

const (
	fGoal       = iota
	fCutTo      // '$cut'(a): pop choice points to height a
	fNegSuccess // \+ goal succeeded: pop to a, then fail
	fCollect    // findall collector: p = *collector
	fPopCatch   // marks exit of a catch goal (only for the deviation model / nothing to do otherwise)
)

type cpKind int

const (
	cpClauses     cpKind = iota
	cpGoal               // alternative goal list (disjunction)
	cpNegFail            // \+: goal failed → continue
	cpCollectDone        // findall/bagof/setof: all solutions collected → finish
	cpRetract
	cpClauseBI
	cpBetween
	cpAlts // list of alternative goal terms to run with the same continuation
	cpBarrier
)

type choicepoint struct {
	kind      cpKind
	trailMark int
	fr        *frame // frame to resume (goal + continuation)
	// clause alternatives
	goal    *T
	clauses []*Clause
	idx     int
	// generic payload
	p interface{}
	n int64
}

type collector struct {
	template *T
	results  []*T
	finish   func(m *Machine, results []*T, fr *frame) // continue after collection, fr = frame of the collecting goal
}

// Machine executes one query.
type Machine struct {
	DB      *DB
	Opt     Options
	bind    map[int64]*T
	trail   []int64
	nextVar int64
	frames  *frame
	cps     []choicepoint
	Steps   int64
	Budget  int64
	Events  []Event
	// statistics for non-triviality rules
	Cuts                 int // cuts that discarded ≥1 choice point
	CutDiscarded         int
	ClauseRetries        int // backtracks into an untried clause alternative
	Throws               int
	ThrowCrossed         int  // catch frames crossed or matched by throws
	Hinged               bool // a result depended on the order of distinct unbound variables
	GroupOrderObservable bool // a bagof/setof call with >=2 groups ran inside another all-solutions call
	OpenUpdates          int  // database updates executed while a call/retract on the same predicate was open
	Groups               int  // bagof/setof groups produced
	catchSeq             int
	started              bool
	failed               bool
	Err                  *T // uncaught ball
	Exhausted            bool
	OutOfBudget          bool
	openCalls            map[string]int
	walked               int64
	Unsupported          string // set when the program used something the reference does not model
}

// New creates a machine for a query over db. Variables of the query must have ids < firstFree.
func New(db *DB, query *T, firstFree int64, budget int64) *Machine {
	m := &Machine{DB: db, bind: map[int64]*T{}, nextVar: firstFree, Budget: budget, openCalls: map[string]int{}}
	m.frames = &frame{goal: query, cutB: 0}
	return m
}

func (m *Machine) fresh() *T {
	m.nextVar++
	return term.V(m.nextVar)
}

func (m *Machine) deref(t *T) *T {
	for t.K == term.KVar {
		b, ok := m.bind[t.I]
		if !ok {
			return t
		}
		t = b
	}
	return t
}

// Resolve applies the current bindings completely (bounded like occurs).
func (m *Machine) Resolve(t *T) *T {
	n := 0
	return m.resolveN(t, &n)
}

func (m *Machine) resolveN(t *T, n *int) *T {
	t = m.deref(t)
	if t.K != term.KCmp {
		return t
	}
	*n++
	if *n > 10*maxWalk {
		if m.Unsupported == "" {
			m.Unsupported = "term too large"
		}
		return term.A("$too_large")
	}
	var args []*T
	for i, a := range t.Args {
		b := m.resolveN(a, n)
		if b != a && args == nil {
			args = make([]*T, len(t.Args))
			copy(args, t.Args[:i])
		}
		if args != nil {
			args[i] = b
		}
	}
	if args == nil {
		return t
	}
	return &T{K: term.KCmp, S: t.S, Args: args}
}

func (m *Machine) bindVar(id int64, t *T) {
	m.bind[id] = t
	m.trail = append(m.trail, id)
}

func (m *Machine) undoTo(mark int) {
	for len(m.trail) > mark {
		id := m.trail[len(m.trail)-1]
		m.trail = m.trail[:len(m.trail)-1]
		delete(m.bind, id)
	}
}

// unify without occurs check (the generators keep clear of STO pairs where the property says so).
func (m *Machine) unify(a, b *T) bool {
	a, b = m.deref(a), m.deref(b)
	if a == b {
		return true
	}
	if a.K == term.KVar {
		if b.K == term.KVar && a.I == b.I {
			return true
		}
		if b.K == term.KCmp && m.occurs(a.I, b) {
			// subject to occurs check: ISO leaves the outcome undefined, the case is not asserted
			m.Unsupported = "STO unification"
			m.OutOfBudget = true
			return false
		}
		m.bindVar(a.I, b)
		return true
	}
	if b.K == term.KVar {
		if a.K == term.KCmp && m.occurs(b.I, a) {
			m.Unsupported = "STO unification"
			m.OutOfBudget = true
			return false
		}
		m.bindVar(b.I, a)
		return true
	}
	if a.K != b.K {
		return false
	}
	switch a.K {
	case term.KCmp:
		if a.S != b.S || len(a.Args) != len(b.Args) {
			return false
		}
		for i := range a.Args {
			if !m.unify(a.Args[i], b.Args[i]) {
				return false
			}
		}
		return true
	default:
		return term.Equal(a, b)
	}
}

// occurs walks t through the bindings; the walk is bounded: terms that have grown beyond maxWalk nodes
// end the run as unsupported (the case is then not asserted) instead of taking exponential time.
func (m *Machine) occurs(id int64, t *T) bool {
	n := 0
	r := m.occursN(id, t, &n)
	m.walked += int64(n)
	if m.walked > 3_000_000 && m.Unsupported == "" {
		m.Unsupported = "terms too large (walk budget)"
	}
	return r
}

const maxWalk = 20000

func (m *Machine) occursN(id int64, t *T, n *int) bool {
	t = m.deref(t)
	*n++
	if *n > maxWalk {
		if m.Unsupported == "" {
			m.Unsupported = "term too large"
		}
		return false
	}
	switch t.K {
	case term.KVar:
		return t.I == id
	case term.KCmp:
		for _, a := range t.Args {
			if m.occursN(id, a, n) {
				return true
			}
		}
	}
	return false
}

func (m *Machine) unifyOC(a, b *T) bool {
	a, b = m.deref(a), m.deref(b)
	if a.K == term.KVar {
		if b.K == term.KVar && a.I == b.I {
			return true
		}
		if m.occurs(a.I, b) {
			return false
		}
		m.bindVar(a.I, b)
		return true
	}
	if b.K == term.KVar {
		if m.occurs(b.I, a) {
			return false
		}
		m.bindVar(b.I, a)
		return true
	}
	if a.K != b.K {
		return false
	}
	if a.K == term.KCmp {
		if a.S != b.S || len(a.Args) != len(b.Args) {
			return false
		}
		for i := range a.Args {
			if !m.unifyOC(a.Args[i], b.Args[i]) {
				return false
			}
		}
		return true
	}
	return term.Equal(a, b)
}

// sto reports whether the unification problem given by pairs is subject to occurs check in the
// order-independent sense of ISO 7.3.3: SOME order of unification steps creates a cyclic binding. It runs
// the unification to the end without stopping at clashes (an over-approximation, which is the safe side: such
// cases are not asserted). The machine's bindings are not touched.
func (m *Machine) sto(pairs [][2]*T) bool {
	local := map[int64]*T{}
	walk := func(t *T) *T {
		for t.K == term.KVar {
			if b, ok := local[t.I]; ok {
				t = b
			} else if b, ok := m.bind[t.I]; ok {
				t = b
			} else {
				return t
			}
		}
		return t
	}
	budget := 20000
	var occurs func(id int64, t *T) bool
	occurs = func(id int64, t *T) bool {
		t = walk(t)
		budget--
		if budget < 0 {
			return true
		}
		switch t.K {
		case term.KVar:
			return t.I == id
		case term.KCmp:
			for _, a := range t.Args {
				if occurs(id, a) {
					return true
				}
			}
		}
		return false
	}
	// chain lists the variables passed while dereferencing t; occursRaw looks for the variable id in t by identity (a
	// variable is compared BEFORE it is dereferenced): in another order of steps a variable that is bound by now would
	// still have been unbound when it met the other side.
	chain := func(t *T) []int64 {
		var ids []int64
		for t.K == term.KVar && len(ids) < 64 {
			ids = append(ids, t.I)
			if b, ok := local[t.I]; ok {
				t = b
			} else if b, ok := m.bind[t.I]; ok {
				t = b
			} else {
				break
			}
		}
		return ids
	}
	var occursRaw func(id int64, t *T) bool
	occursRaw = func(id int64, t *T) bool {
		budget--
		if budget < 0 {
			return true
		}
		for t.K == term.KVar {
			if t.I == id {
				return true
			}
			if b, ok := local[t.I]; ok {
				t = b
			} else if b, ok := m.bind[t.I]; ok {
				t = b
			} else {
				return false
			}
		}
		if t.K == term.KCmp {
			for _, a := range t.Args {
				if occursRaw(id, a) {
					return true
				}
			}
		}
		return false
	}
	for len(pairs) > 0 {
		ra, rb := pairs[len(pairs)-1][0], pairs[len(pairs)-1][1]
		a, b := walk(ra), walk(rb)
		pairs = pairs[:len(pairs)-1]
		if b.K == term.KCmp {
			for _, id := range chain(ra) {
				if occursRaw(id, b) {
					return true
				}
			}
		}
		if a.K == term.KCmp {
			for _, id := range chain(rb) {
				if occursRaw(id, a) {
					return true
				}
			}
		}
		if a.K == term.KVar && b.K == term.KVar && a.I == b.I {
			continue
		}
		if a.K != term.KVar && b.K == term.KVar {
			a, b = b, a
		}
		if a.K == term.KVar {
			if b.K == term.KCmp && occurs(a.I, b) {
				return true
			}
			local[a.I] = b
			continue
		}
		if a.K == term.KCmp && b.K == term.KCmp && a.S == b.S && len(a.Args) == len(b.Args) {
			for i := range a.Args {
				pairs = append(pairs, [2]*T{a.Args[i], b.Args[i]})
			}
		}
		if budget < 0 {
			return true
		}
	}
	return false
}

// noteSTO marks the run as not assertable when a unification problem is subject to occurs check.
func (m *Machine) noteSTO(pairs [][2]*T) {
	if m.Unsupported == "" && m.sto(pairs) {
		m.Unsupported = "STO unification"
		m.OutOfBudget = true
	}
}

// rename makes a copy of t with fresh variables (t is resolved first).
func (m *Machine) rename(t *T, mp map[int64]*T) *T {
	t = m.Resolve(t)
	return term.Map(t, func(id int64) *T {
		v, ok := mp[id]
		if !ok {
			v = m.fresh()
			mp[id] = v
		}
		return v
	})
}

func (m *Machine) push(goal *T, next *frame, cutB int, chain *catchEntry) *frame {
	return &frame{goal: goal, next: next, cutB: cutB, chain: chain}
}

func (m *Machine) cutTo(h int, explicit bool) {
	if len(m.cps) > h {
		if explicit {
			m.Cuts++
			m.CutDiscarded += len(m.cps) - h
		}
		for i := h; i < len(m.cps); i++ {
			m.releaseCP(&m.cps[i])
		}
		m.cps = m.cps[:h]
	}
}

func (m *Machine) releaseCP(cp *choicepoint) {
	if k, ok := cp.p.(openKey); ok {
		m.openCalls[string(k)]--
	}
}

type openKey string

// Next runs until the next answer. It returns true for an answer, false when the search is exhausted,
// ended with an uncaught error (m.Err) or ran out of budget (m.OutOfBudget).
func (m *Machine) Next() bool {
	if m.Exhausted || m.Err != nil || m.OutOfBudget {
		return false
	}
	if m.started {
		// ask for another answer: backtrack
		if !m.backtrack() {
			m.Exhausted = true
			return false
		}
	}
	m.started = true
	for {
		if m.frames == nil {
			return true
		}
		m.Steps++
		if m.Steps > m.Budget || m.Unsupported != "" {
			m.OutOfBudget = true
			return false
		}
		fr := m.frames
		ok, ball := m.step(fr)
		if ball != nil {
			if !m.handleThrow(fr, ball) {
				return false
			}
			continue
		}
		if !ok {
			if !m.backtrack() {
				m.Exhausted = true
				return false
			}
		}
	}
}

// backtrack resumes the newest choice point; false if there is none.
func (m *Machine) backtrack() bool {
	for len(m.cps) > 0 {
		cp := &m.cps[len(m.cps)-1]
		m.undoTo(cp.trailMark)
		switch cp.kind {
		case cpClauses:
			if m.tryClauses(cp) {
				return true
			}
		case cpGoal:
			fr := cp.fr
			m.releaseCP(cp)
			m.cps = m.cps[:len(m.cps)-1]
			m.frames = fr
			return true
		case cpNegFail:
			fr := cp.fr
			m.cps = m.cps[:len(m.cps)-1]
			m.frames = fr
			return true
		case cpCollectDone:
			col := cp.p.(*collector)
			fr := cp.fr
			m.cps = m.cps[:len(m.cps)-1]
			col.finish(m, col.results, fr)
			return true
		case cpRetract:
			if m.retryRetract(cp) {
				return true
			}
		case cpClauseBI:
			if m.retryClauseBI(cp) {
				return true
			}
		case cpBetween:
			if m.retryBetween(cp) {
				return true
			}
		case cpAlts:
			alts := cp.p.([]*T)
			fr := cp.fr
			g := alts[0]
			if len(alts) == 1 {
				m.cps = m.cps[:len(m.cps)-1]
			} else {
				cp.p = alts[1:]
			}
			m.frames = &frame{goal: g, next: fr.next, cutB: len(m.cps), chain: fr.chain}
			return true
		case cpBarrier:
			m.cps = m.cps[:len(m.cps)-1]
		}
	}
	return false
}

// handleThrow implements 7.8.9/7.8.10; returns false if the ball is uncaught (m.Err set).
func (m *Machine) handleThrow(fr *frame, ball *T) bool {
	m.Throws++
	ball = m.rename(ball, map[int64]*T{}) // copy before any undo
	for e := fr.chain; e != nil; e = e.outer {
		m.ThrowCrossed++
		m.undoTo(e.trailMark)
		for i := e.cpHeight; i < len(m.cps); i++ {
			m.releaseCP(&m.cps[i])
		}
		if len(m.cps) > e.cpHeight {
			m.cps = m.cps[:e.cpHeight]
		}
		mark := len(m.trail)
		if m.unify(e.catcher, ball) {
			// Recovery is called (opaque to cut) in place of the catch/3 goal
			var next *frame
			var chain *catchEntry
			if e.next != nil {
				next = e.next
			}
			chain = e.outer
			m.frames = &frame{goal: term.C("call", e.recovery), next: next, cutB: len(m.cps), chain: chain}
			return true
		}
		m.undoTo(mark)
	}
	m.Err = m.Resolve(ball)
	return false
}

// Answer resolves the given query variables under the current bindings.
func (m *Machine) Answer(vars []*T) []*T {
	out := make([]*T, len(vars))
	for i, v := range vars {
		out[i] = m.Resolve(v)
	}
	return out
}
