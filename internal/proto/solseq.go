package proto

// SolSeq is the payload (Case.P) of worker kind "solseq": a sequence of Next/Scan/Err/Close calls issued from
// one goroutine against one or two Solutions of one fresh interpreter (property C12).
type SolSeq struct {
	Queries []string `json:"queries"`         // 1 or 2 query texts; all are opened (QueryContext) before the first call
	Ops     []string `json:"ops"`             // per Solutions: a string over N(ext) S(can) E(rr) C(lose)
	Order   string   `json:"order,omitempty"` // merge order over 'A' / 'B' (which Solutions issues its next call); "" = all of A
	Var     string   `json:"var,omitempty"`   // name of the query variable reported by Scan (default X)
	// Solution: the queries are opened with QuerySolutionContext instead (a *prolog.Solution has Scan and Err only:
	// ops over S and E; nothing is closed by the caller, the library has to release the search by itself)
	Solution bool `json:"solution,omitempty"`
}

// SolSeqOp is the observation of one call.
type SolSeqOp struct {
	Sol     int    `json:"sol"`               // 0 = A, 1 = B
	Op      string `json:"op"`                // N S E C
	Cleanup bool   `json:"cleanup,omitempty"` // Close added by the worker after the requested calls (Solutions still open)
	Bool    *bool  `json:"bool,omitempty"`    // Next: the result
	Val     string `json:"val,omitempty"`     // Scan: JSON of the value scanned for Var into map[string]interface{} ("absent" if no such key)
	// ValReuse: the same Scan repeated into a destination (a struct with an interface{} field) that already received the
	// earlier answers of this Solutions ("" = not done: no such variable, or the first Scan failed)
	ValReuse string `json:"val_reuse,omitempty"`
	Nil      bool   `json:"nil,omitempty"` // Scan / Err / Close returned a nil error
	Err     *Err   `json:"err,omitempty"`     // Scan / Err / Close: the non-nil error
	Closed  bool   `json:"closed,omitempty"`  // errors.Is(err, prolog.ErrClosed)
	Panic   string `json:"panic,omitempty"`   // the call panicked (recovered in the calling goroutine)
	OutLen  int    `json:"out_len"`           // bytes on user_output once the call had returned
	Out     string `json:"out,omitempty"`     // bytes that appeared on user_output during the call (at most 64)
}

// SolSeqResult is Result.R of kind "solseq".
type SolSeqResult struct {
	QueryErr []string   `json:"query_err,omitempty"` // QueryContext error per query ("" = none)
	Ops      []SolSeqOp `json:"ops"`
	OutLen   int        `json:"out_len"`            // bytes on user_output after the settle phase
	LateOut  string     `json:"late_out,omitempty"` // bytes that appeared after the last call had returned (at most 64)
	G0       int        `json:"g0"`                 // runtime.NumGoroutine() before the first QueryContext
	GOps     int        `json:"g_ops"`              // ... right after the last call
	GFinal   int        `json:"g_final"`            // ... after the settle phase
	Yields   int        `json:"yields"`             // Gosched calls of the settle phase
	Sleeps   int        `json:"sleeps"`             // 1 ms sleeps of the settle phase
	New      []SolSeqG  `json:"new,omitempty"`      // goroutines that exist after the settle phase and did not exist at G0
}

// SolSeqG is one surviving goroutine, from runtime.Stack(all).
type SolSeqG struct {
	ID    int64  `json:"id"`
	State string `json:"state"` // text between the brackets of the header: "chan receive", "runnable", ...
	Stack string `json:"stack"` // its block of the dump (truncated)
}
