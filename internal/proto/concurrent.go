package proto

// Payload and result of the worker kind "concurrent" (property C14): several interpreters, one goroutine
// each, run scripts at the same time; the same scripts are first run alone as the baseline.

// ConcTagMark is replaced in every script text and user-input text by the payload's Tag followed by a
// three-character pass tag, so that each pass mints atom names no earlier pass has interned.
const ConcTagMark = "#T#"

type ConcPayload struct {
	Procs   int          `json:"procs"`             // runtime.GOMAXPROCS for the case
	Reps    int          `json:"reps"`              // concurrent repetitions (rounds)
	Tag     string       `json:"tag"`               // case-unique name component
	Seq     bool         `json:"seq,omitempty"`     // also run the two sequential multi-interpreter passes
	Scripts []ConcScript `json:"scripts"`           // one per goroutine / interpreter
	Micro   int          `json:"micro,omitempty"`   // barrier-released interning rounds per repetition
	Batch   int          `json:"batch,omitempty"`   // fresh shared names interned per interning round
	Private int          `json:"private,omitempty"` // private fresh names per goroutine per repetition
	Vars    int          `json:"vars,omitempty"`    // engine.NewVariable calls per goroutine per repetition
	Sched   int64        `json:"sched,omitempty"`   // mean trampoline steps between injected yields (0 = none)
	Seed    uint64       `json:"seed,omitempty"`    // seed of the yield schedule
	Budget  int64        `json:"budget,omitempty"`  // trampoline-step budget per API call (hooks only)
}

type ConcScript struct {
	Input string     `json:"input,omitempty"` // what user_input serves
	NilIO bool       `json:"nil_io,omitempty"` // the interpreter is created with prolog.New(nil, nil): no reader, no writer
	Steps []ConcStep `json:"steps"`
}

// ConcStep is an Exec, a Query, or a rendezvous of all goroutines of a concurrent pass (no-op otherwise).
type ConcStep struct {
	Exec    string `json:"exec,omitempty"`
	Query   string `json:"query,omitempty"`
	Max     int    `json:"max,omitempty"` // answers to pull (0 = all, capped)
	Barrier bool   `json:"barrier,omitempty"`
}

// ConcWire is what travels in Result.R: the gzip-compressed JSON of a ConcResult.
type ConcWire struct {
	GZ []byte `json:"gz"`
}

type ConcResult struct {
	Race      bool       `json:"race"`       // worker built with -race
	LogPath   bool       `json:"log_path"`   // GORACE log_path was configured (reports are shipped in RaceLog)
	Passes    []ConcPass `json:"passes"`     // alone, [alone, seq, seq2,] conc × Reps — in execution order
	RaceLog   string     `json:"race_log"`   // what the race detector wrote during this case
	RaceBytes int        `json:"race_bytes"` // size of that text before truncation
	Procs     int        `json:"procs"`      // GOMAXPROCS actually in force
}

// ConcPass is one execution of all scripts. Kind "alone": every script in its own fresh interpreter, one after
// the other (highest index first). "seq": all interpreters created, then script 0, 1, ... run to completion
// one after the other. "seq2": interpreter g is created after script g-1 has finished. "conc": one goroutine
// per script, released together.
type ConcPass struct {
	Kind    string    `json:"kind"`
	Tag     string    `json:"tag"` // what replaced ConcTagMark in this pass
	G       []ConcGor `json:"g"`
	Aborted string    `json:"aborted,omitempty"`
}

// ConcGor is what one goroutine observed. Every field is written by that goroutine only.
type ConcGor struct {
	Steps []ConcObs `json:"steps"`
	Start int64     `json:"start,omitempty"` // logical clock (one shared atomic counter) when released
	End   int64     `json:"end,omitempty"`   // ... and when finished
	// engine.NewAtom / Atom.String on the fresh shared names "sx_<tag>_<round>_<k>" right after the barrier
	// of each interning round, and once more at the end of the pass (Shared2).
	Shared    []uint64 `json:"shared,omitempty"`
	SharedStr []string `json:"shared_str,omitempty"`
	Shared2   []uint64 `json:"shared2,omitempty"`
	// private fresh names "px_<tag>_g<g>_<k>", interned between script steps
	Priv    []uint64 `json:"priv,omitempty"`
	PrivStr []string `json:"priv_str,omitempty"`
	// raw engine.NewVariable() values minted in a tight loop: signed varint deltas (first delta from 0)
	Vars  []byte `json:"vars,omitempty"`
	Panic string `json:"panic,omitempty"`
}

// ConcObs is the observation of one step.
type ConcObs struct {
	Ans      []string `json:"a,omitempty"`  // per answer "Name=tree;..." (names sorted, variables as _G<id>)
	TS       []string `json:"ts,omitempty"` // the same answers scanned as prolog.TermString
	Done     bool     `json:"d,omitempty"`  // Next returned false
	Exc      string   `json:"e,omitempty"`  // thrown term (tree text) of the error returned by the API
	ErrText  string   `json:"x,omitempty"`  // err.Error()
	Out      string   `json:"o,omitempty"`  // bytes written to user_output during the step
	Budget   bool     `json:"b,omitempty"`  // the step budget cancelled the call
	CloseErr string   `json:"c,omitempty"`
}
