// Package proto is the controller ⇄ worker protocol (newline-delimited JSON both ways).
package proto

import (
	"encoding/json"

	"verif/internal/term"
)

// Case is one unit of work executed by the worker against the real engine.
type Case struct {
	ID   string `json:"id"`
	Kind string `json:"kind"` // prolog | solseq | cancel | concurrent | scan | envdriver | stream | dump ...

	// --- kind "prolog" ---
	Fresh     bool              `json:"fresh,omitempty"`      // bare interpreter (no bootstrap)? normally false
	Flags     [][2]string       `json:"flags,omitempty"`      // set_prolog_flag(name,value) before everything
	Setup     []string          `json:"setup,omitempty"`      // Exec texts, in order (errors are recorded, not fatal)
	Inputs    []*term.Term      `json:"inputs,omitempty"`     // terms served by verif_in/2
	UserInput *Source           `json:"user_input,omitempty"` // what user_input reads
	Streams   []Source          `json:"streams,omitempty"`    // extra host streams, served by verif_stream(I,S)
	Files     map[string]string `json:"files,omitempty"`      // files created in the scratch cwd before the run
	Steps     []Step            `json:"steps,omitempty"`

	// --- generic payload for the other kinds ---
	P json.RawMessage `json:"p,omitempty"`
}

// Source describes a host-provided input stream.
type Source struct {
	Data   []byte `json:"data"`             // base64 in JSON
	Reader string `json:"reader,omitempty"` // bytes | onebyte | eofwithdata | erroring:<n>
	Binary bool   `json:"binary,omitempty"`
	Alias  string `json:"alias,omitempty"`
	Output bool   `json:"output,omitempty"` // an output sink instead (its bytes are reported per step)
}

// Step is one API call against the interpreter of a prolog case.
type Step struct {
	Exec       string `json:"exec,omitempty"`   // ExecContext(text)
	Query      string `json:"query,omitempty"`  // QueryContext(text) then Next ×Max, Close
	Args       []Arg  `json:"args,omitempty"`   // placeholder arguments
	Max        int    `json:"max,omitempty"`    // pull at most Max answers (0 = until Next is false, capped at 10000)
	StepBudget int64  `json:"budget,omitempty"` // cancel the context after this many trampoline steps (0 = default)
}

// Arg is a typed Go value for a '?' placeholder.
type Arg struct {
	T string `json:"t"`           // string int int8 int16 int32 int64 float32 float64 list uint bool nil
	S string `json:"s,omitempty"` // string payload (raw bytes, base64-free: JSON string; invalid UTF-8 via B)
	B []byte `json:"b,omitempty"` // string payload as bytes when not valid UTF-8
	I int64  `json:"i,omitempty"`
	F string `json:"f,omitempty"` // float bits, 16 hex digits
	E []Arg  `json:"e,omitempty"`
}

// Result is what the worker reports for one case.
type Result struct {
	ID       string          `json:"id"`
	Setup    []*Err          `json:"setup,omitempty"` // one per setup text (nil = ok)
	Steps    []StepResult    `json:"steps,omitempty"`
	Fatal    string          `json:"fatal,omitempty"` // worker-side problem that is not about the engine
	R        json.RawMessage `json:"r,omitempty"`     // payload for the other kinds
	Counters *Counters       `json:"counters,omitempty"`
	Hooks    bool            `json:"hooks"`             // worker was built with the verif tag
	WallMS   int64           `json:"wall_ms,omitempty"` // time the worker spent on the case (evidence only, never a verdict)
}

// StepResult is the observation of one Step.
type StepResult struct {
	Answers   []map[string]*term.Term `json:"answers,omitempty"`
	Exhausted bool                    `json:"exhausted,omitempty"` // Next returned false
	Err       *Err                    `json:"err,omitempty"`
	Events    []Event                 `json:"events,omitempty"` // verif_out log, in order, with answer boundaries
	Output    []byte                  `json:"output,omitempty"` // bytes written to user_output during the step
	Sinks     [][]byte                `json:"sinks,omitempty"`  // bytes received by each output Source so far
	Steps     int64                   `json:"nsteps,omitempty"` // trampoline iterations (hooks)
	BudgetHit bool                    `json:"budget_hit,omitempty"`
	CloseErr  string                  `json:"close_err,omitempty"`
}

// Event is one verif_out record; Tag "$answer" marks an answer boundary.
type Event struct {
	Tag string     `json:"tag"`
	T   *term.Term `json:"t,omitempty"`
}

// Err is an error observed at the API.
type Err struct {
	Exception *term.Term `json:"exception,omitempty"` // engine.Exception term
	Text      string     `json:"text"`                // err.Error()
	GoType    string     `json:"go_type,omitempty"`
}

// Counters are hook-derived coverage figures for one case.
type Counters struct {
	Steps     int64            `json:"steps"`
	MaxDepth  int              `json:"max_depth"`
	Cuts      int64            `json:"cuts"`
	CutPopped map[int]int64    `json:"cut_popped,omitempty"` // histogram: promises discarded by a cut (capped at 16)
	Recovers  int64            `json:"recovers"`
	Handled   int64            `json:"handled"`
	Ops       map[string]int64 `json:"ops,omitempty"`
}
