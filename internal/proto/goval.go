package proto

import "verif/internal/term"

// Types of the worker kinds "goapi" and "scan" (property C15: Go values crossing the API).
//
// Placeholder arguments use Arg (proto.go). Besides the base types understood by goArg, the kind "goapi"
// understands composite type names in Arg.T: "[]T" and "[N]T" for any supported T (elements in Arg.E, each
// with its own T), "[]interface{}" (elements of any type), and a few types the API is expected to refuse:
// uint8 uint16 uint32 uint64 uintptr complex128 struct ptr map func chan.

// GoVal is a Go value as stored by Scan, reported without going through text: integers as decimal strings,
// floats as bit patterns, strings as bytes, slices element-wise.
type GoVal struct {
	K   string  `json:"k"`             // dynamic Go type: nil int int8 … float32 float64 string bool []T other:<type>
	I   string  `json:"i,omitempty"`   // integer kinds: decimal
	F   string  `json:"f,omitempty"`   // float64: 16 hex digits; float32: 8 hex digits
	B   []byte  `json:"b,omitempty"`   // string kinds: the bytes
	E   []GoVal `json:"e,omitempty"`   // slices/arrays: the elements
	Nil bool    `json:"nil,omitempty"` // a nil slice (as opposed to an empty one)
	T   bool    `json:"t,omitempty"`   // bool kinds
}

// ScanPayload is the payload (Case.P) of kind "scan". The case's Flags, Setup and Inputs apply as for kind
// "prolog" (the answer term normally comes from verif_in(0, X), i.e. it is built structurally).
type ScanPayload struct {
	Query string   `json:"query"` // must bind/mention the variable X; may mention others
	Args  []Arg    `json:"args,omitempty"`
	Dests []string `json:"dests"` // destination type names, see cmd/vworker/scancase.go
}

// ScanCell is one Scan call: destination type × container shape.
type ScanCell struct {
	Dest  string            `json:"dest"`
	Shape string            `json:"shape"` // struct (field Val with tag prolog:"X") | map (map[string]T)
	Err   string            `json:"err,omitempty"`
	Val   *GoVal            `json:"val,omitempty"`  // what the destination holds after a nil error
	Keys  []string          `json:"keys,omitempty"` // map shape: the keys present after Scan
	All   map[string]*GoVal `json:"all,omitempty"`  // map shape: what every key holds after a nil error
}

// ScanResult is the Result.R of kind "scan".
type ScanResult struct {
	QueryErr *Err                  `json:"query_err,omitempty"`
	NoAnswer bool                  `json:"no_answer,omitempty"`
	Answer   map[string]*term.Term `json:"answer,omitempty"` // the answer read structurally (all variables)
	Cells    []ScanCell            `json:"cells,omitempty"`
}
