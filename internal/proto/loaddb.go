package proto

import "verif/internal/term"

// Kind "loaddb" (check C20): a "prolog" case (Files, Flags, Steps) whose database is dumped through the
// verif hooks after selected steps. Payload in Case.P, result in Result.R.

// LoadDBPayload selects the steps after which the database is dumped.
type LoadDBPayload struct {
	DumpAfter []int `json:"dump_after"` // step indices; -1 = before the first step
}

// DBProc is one procedure of a dump: every procedure that did not exist when the interpreter was created,
// or whose flags / clause count differ from that moment.
type DBProc struct {
	Name          string       `json:"name"`
	Arity         int          `json:"arity"`
	User          bool         `json:"user"`
	Public        bool         `json:"public,omitempty"`
	Dynamic       bool         `json:"dynamic,omitempty"`
	Multifile     bool         `json:"multifile,omitempty"`
	Discontiguous bool         `json:"discontiguous,omitempty"`
	Clauses       []*term.Term `json:"clauses,omitempty"` // stored raw clause terms, in order
	Gone          bool         `json:"gone,omitempty"`    // existed at creation, does not exist any more
}

// LoadDBResult carries one dump per requested step (none when the worker was built without hooks). A dump
// whose serialisation is byte-identical to the one before it is not repeated: Same[i] is set instead.
type LoadDBResult struct {
	Dumps [][]DBProc `json:"dumps"`
	Same  []bool     `json:"same,omitempty"`
}
