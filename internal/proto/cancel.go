package proto

// Payload and result of the worker kind "cancel" (property C13: context cancellation).

// CancelPayload (Case.P) describes one call that is cancelled at a chosen instant of the logical clock.
type CancelPayload struct {
	API   string   `json:"api"`             // query (QueryContext+Next) | solution (QuerySolutionContext) | exec (ExecContext)
	Setup []string `json:"setup,omitempty"` // program texts, Exec'ed before the call with a background context
	Text  string   `json:"text"`            // the query (with final '.') or the program text handed to ExecContext
	Max   int      `json:"max,omitempty"`   // query: pull at most Max answers (default 1)

	// Mode is how the cancellation instant is chosen:
	//   hook    the step hook cancels at trampoline step N (N >= 1), i.e. just before the context poll of that step
	//   async   the step hook wakes a second goroutine at step N; that goroutine cancels (instant = when cancel() returned)
	//   before  the context is already cancelled / expired when the call is made (N = 0)
	//   goal    the program cancels: the N-th execution of the host predicate cancel_at(N) cancels, in the middle of a step
	//   between query only: the caller cancels after answer number N was delivered, then calls Next again
	//   timer   a real context.WithTimeout of N microseconds (smoke only, never decides)
	//   never   no cancellation (control)
	Mode string `json:"mode"`
	N    int64  `json:"n"`
	// Ctx is the kind of context: cancel (WithCancel) | child (WithValue child of a WithCancel child of the cancelled parent)
	// | deadline (own Context implementation that expires with DeadlineExceeded when told) | deadline_past
	// (WithDeadline one hour ago; mode before only) | timeout (WithTimeout; mode timer only)
	Ctx     string `json:"ctx"`
	Limit   int64  `json:"limit"`             // abort the experiment when this many steps ran after the cancellation
	Gosched int    `json:"gosched,omitempty"` // per-mille probability of runtime.Gosched() in the step hook
	Seed    uint64 `json:"seed,omitempty"`
	Budget  int64  `json:"budget,omitempty"` // total step budget of the call when the cancellation instant is never reached
	Follow  []Step `json:"follow,omitempty"` // calls made on the same interpreter afterwards (kind "prolog" semantics)
}

// CancelResult (Result.R) is what was observed.
type CancelResult struct {
	Cancelled  bool  `json:"cancelled"`   // the cancellation instant was reached before the call returned
	CancelStep int64 `json:"cancel_step"` // value of the logical clock when the context was cancelled
	StackDepth int   `json:"stack_depth"` // promise-stack depth of the running trampoline at the cancel step (hook argument)
	ForceDepth int   `json:"force_depth"` // number of Promise.Force frames on the goroutine's call stack at the cancel step

	Steps            int64    `json:"steps"`              // trampoline steps of the call in total
	StepsAfter       int64    `json:"steps_after"`        // steps after the cancellation until the call returned
	StepsAfterReturn int64    `json:"steps_after_return"` // steps of the cancelled call seen after it had returned
	EventsBefore     int      `json:"events_before"`      // verif_out/w goals executed before the cancellation
	EventsAfter      int      `json:"events_after"`       // ... after it
	BytesAfter       int      `json:"bytes_after"`        // bytes written to user_output after the cancellation
	LastEvents       []string `json:"last_events,omitempty"`

	Returned     bool                `json:"returned"`
	Err          *Err                `json:"err,omitempty"`     // error of the call (Next false → Solutions.Err; Solution.Err; ExecContext)
	CtxErr       string              `json:"ctx_err,omitempty"` // ctx.Err() after the call
	ErrIsCtx     bool                `json:"err_is_ctx"`        // errors.Is(err, ctx.Err())
	ErrSame      bool                `json:"err_same"`          // err == ctx.Err()
	Answers      []map[string]string `json:"answers,omitempty"` // canonical text per variable
	AnswersAfter int                 `json:"answers_after"`     // answers delivered after the cancellation
	Exhausted    bool                `json:"exhausted"`         // query: Next returned false
	Forced       bool                `json:"forced,omitempty"`  // the instant was chosen by the watchdog: no step for a CPU second
	BudgetHit    bool                `json:"budget_hit"`        // the call was stopped by the worker's overall step budget
	CloseErr     string              `json:"close_err,omitempty"`

	// abnormal endings of the experiment (the worker exits after reporting them)
	Ignored  bool    `json:"ignored,omitempty"` // Limit steps ran after the cancellation and the call had still not returned
	Stuck    string  `json:"stuck,omitempty"`   // "cpu": CPU seconds burnt after the cancellation without returning; "idle": no CPU used for seconds; "wall": only wall time passed
	CPUAfter float64 `json:"cpu_after,omitempty"`
	Dump     string  `json:"dump,omitempty"` // all goroutine stacks at that moment

	WallAfterNs int64        `json:"wall_after_ns"` // evidence only
	Goscheds    int64        `json:"goscheds,omitempty"`
	SetupErr    []*Err       `json:"setup_err,omitempty"`
	Follow      []StepResult `json:"follow,omitempty"` // the fixed follow-up calls on the same interpreter
}
