package run

import (
	"bufio"
	"bytes"
	"encoding/json"
	"fmt"
	"os"
	"os/exec"
	"strconv"
	"strings"
	"sync"
	"syscall"
	"time"

	"verif/internal/proto"
)

// Outcome pairs a case with what happened: a result from the worker, or the death of the worker process
// while it was executing that case.
type Outcome struct {
	Case  *proto.Case
	Res   *proto.Result
	Crash *Crash
}

// Crash describes a worker process that ended (or was ended) while executing a case.
type Crash struct {
	Stderr      string
	Exit        string
	Hung        bool    // ended by the wall-clock watchdog (never a verdict by itself)
	CPUSeconds  float64 // CPU time the process burnt on this case (a load-independent clock)
	OutOfMemory bool    // ended by the pool because its resident memory exceeded MaxRSS
}

// Pool runs cases in worker processes.
type Pool struct {
	W           *Worker
	Par         int
	Batch       int
	CaseTimeout time.Duration // wall-clock watchdog per case (generous; firing = inconclusive unless CPU says otherwise)
	MemLimit    string        // GOMEMLIMIT for workers
	ExtraEnv    []string
	Progress    func(done, total int)
	MaxRSS      int64 // hard bound on a worker's resident memory in bytes (default 3 GiB)
}

func (p *Pool) maxRSS() int64 {
	if p.MaxRSS > 0 {
		return p.MaxRSS
	}
	return 3 << 30
}

func NewPool(w *Worker) *Pool {
	par := 16
	if s := os.Getenv("VERIF_PAR"); s != "" {
		if n, err := strconv.Atoi(s); err == nil && n > 0 {
			par = n
		}
	}
	return &Pool{W: w, Par: par, Batch: 20, CaseTimeout: 120 * time.Second, MemLimit: "1GiB"}
}

// Run executes all cases and returns one outcome per case, in the order given.
func (p *Pool) Run(cases []*proto.Case) []*Outcome {
	outs := make([]*Outcome, len(cases))
	idx := map[string]int{}
	for i, c := range cases {
		if c.ID == "" {
			c.ID = fmt.Sprintf("c%d", i)
		}
		if _, dup := idx[c.ID]; dup {
			c.ID = fmt.Sprintf("%s#%d", c.ID, i)
		}
		idx[c.ID] = i
		outs[i] = &Outcome{Case: c}
	}
	type batch struct{ lo, hi int }
	var batches []batch
	bs := p.Batch
	if bs <= 0 {
		bs = 100
	}
	// keep all cores busy also for small case lists
	if n := (len(cases) + p.Par - 1) / p.Par; n < bs && n > 0 {
		bs = n
	}
	for lo := 0; lo < len(cases); lo += bs {
		hi := lo + bs
		if hi > len(cases) {
			hi = len(cases)
		}
		batches = append(batches, batch{lo, hi})
	}
	var mu sync.Mutex
	done := 0
	ch := make(chan batch, len(batches))
	for _, b := range batches {
		ch <- b
	}
	close(ch)
	var wg sync.WaitGroup
	for i := 0; i < p.Par; i++ {
		wg.Add(1)
		go func() {
			defer wg.Done()
			for b := range ch {
				lo := b.lo
				for lo < b.hi {
					n := p.runProcess(cases[lo:b.hi], outs[lo:b.hi])
					if n == 0 {
						// cannot make progress (worker does not even start): mark and move on
						if outs[lo].Res == nil && outs[lo].Crash == nil {
							outs[lo].Crash = &Crash{Exit: "worker produced nothing"}
						}
						n = 1
					}
					lo += n
					mu.Lock()
					done += n
					if p.Progress != nil {
						p.Progress(done, len(cases))
					}
					mu.Unlock()
				}
			}
		}()
	}
	wg.Wait()
	return outs
}

// runProcess feeds cases to one worker process and fills outs; it returns how many cases were settled
// (finished, or identified as the one during which the process died).
func (p *Pool) runProcess(cases []*proto.Case, outs []*Outcome) int {
	var in bytes.Buffer
	enc := json.NewEncoder(&in)
	for _, c := range cases {
		if err := enc.Encode(c); err != nil {
			panic(err)
		}
	}
	cmd := exec.Command(p.W.Bin)
	cmd.Stdin = &in
	cmd.Env = append(os.Environ(), "GOMEMLIMIT="+p.MemLimit, "GOTRACEBACK=all")
	cmd.Env = append(cmd.Env, p.ExtraEnv...)
	var stderr tailBuffer
	cmd.Stderr = &stderr
	stdout, err := cmd.StdoutPipe()
	if err != nil {
		return 0
	}
	if err := cmd.Start(); err != nil {
		return 0
	}
	pid := cmd.Process.Pid

	var mu sync.Mutex
	settled := 0
	current := -1 // index of the case that has begun but not finished
	var beganAt time.Time
	var cpuAtBegin float64
	hung := false
	memKilled := false
	stop := make(chan struct{})
	go func() { // watchdog
		t := time.NewTicker(200 * time.Millisecond)
		defer t.Stop()
		for {
			select {
			case <-stop:
				return
			case <-t.C:
				if rss := procRSS(pid); rss > p.maxRSS() && !memKilled {
					// hard memory bound (GOMEMLIMIT is only a soft limit): the case is reported as a crash
					memKilled = true
					_ = cmd.Process.Kill()
				}
				mu.Lock()
				if current >= 0 && !hung && time.Since(beganAt) > p.CaseTimeout {
					hung = true
					mu.Unlock()
					_ = cmd.Process.Signal(syscall.SIGQUIT)
					time.AfterFunc(10*time.Second, func() { _ = cmd.Process.Kill() })
					continue
				}
				mu.Unlock()
			}
		}
	}()

	sc := bufio.NewScanner(stdout)
	sc.Buffer(make([]byte, 1<<20), 1<<30)
	var lastCPU float64
	for sc.Scan() {
		line := sc.Bytes()
		if bytes.HasPrefix(line, []byte("BEGIN ")) {
			mu.Lock()
			current = settled
			beganAt = time.Now()
			cpuAtBegin = procCPU(pid)
			mu.Unlock()
			continue
		}
		var r proto.Result
		if err := json.Unmarshal(line, &r); err != nil {
			continue
		}
		mu.Lock()
		if settled < len(outs) {
			outs[settled].Res = &r
			settled++
		}
		current = -1
		mu.Unlock()
	}
	mu.Lock()
	if current >= 0 {
		lastCPU = procCPU(pid) - cpuAtBegin
	}
	mu.Unlock()
	werr := cmd.Wait()
	close(stop)
	mu.Lock()
	defer mu.Unlock()
	if current >= 0 && settled < len(outs) {
		exit := "exit 0"
		if werr != nil {
			exit = werr.Error()
		}
		if ru, ok := cmd.ProcessState.SysUsage().(*syscall.Rusage); ok && lastCPU <= 0 {
			total := float64(ru.Utime.Sec+ru.Stime.Sec) + float64(ru.Utime.Usec+ru.Stime.Usec)/1e6
			lastCPU = total - cpuAtBegin
		}
		if memKilled {
			exit = fmt.Sprintf("killed: resident memory exceeded the bound of %d MiB (%s)", p.maxRSS()>>20, exit)
		}
		outs[settled].Crash = &Crash{Stderr: stderr.String(), Exit: exit, Hung: hung, CPUSeconds: lastCPU, OutOfMemory: memKilled}
		settled++
	} else if settled < len(outs) && werr != nil && settled == 0 {
		// died before the first BEGIN
		outs[0].Crash = &Crash{Stderr: stderr.String(), Exit: werr.Error()}
		settled = 1
	}
	return settled
}

// procRSS returns the resident set size of a live process in bytes (0 if it cannot be read).
func procRSS(pid int) int64 {
	b, err := os.ReadFile(fmt.Sprintf("/proc/%d/statm", pid))
	if err != nil {
		return 0
	}
	f := strings.Fields(string(b))
	if len(f) < 2 {
		return 0
	}
	n, _ := strconv.ParseInt(f[1], 10, 64)
	return n * int64(os.Getpagesize())
}

// procCPU returns user+system CPU seconds of a live process (0 if it cannot be read).
func procCPU(pid int) float64 {
	b, err := os.ReadFile(fmt.Sprintf("/proc/%d/stat", pid))
	if err != nil {
		return 0
	}
	s := string(b)
	i := strings.LastIndexByte(s, ')')
	if i < 0 {
		return 0
	}
	f := strings.Fields(s[i+1:])
	if len(f) < 13 {
		return 0
	}
	ut, _ := strconv.ParseFloat(f[11], 64)
	st, _ := strconv.ParseFloat(f[12], 64)
	return (ut + st) / 100
}

// tailBuffer keeps the head and the tail of a stream.
type tailBuffer struct {
	head, tail []byte
	dropped    bool
}

const keep = 96 << 10

func (b *tailBuffer) Write(p []byte) (int, error) {
	n := len(p)
	if len(b.head) < keep {
		k := keep - len(b.head)
		if k > len(p) {
			k = len(p)
		}
		b.head = append(b.head, p[:k]...)
		p = p[k:]
	}
	if len(p) > 0 {
		b.tail = append(b.tail, p...)
		if len(b.tail) > keep {
			b.tail = b.tail[len(b.tail)-keep:]
			b.dropped = true
		}
	}
	return n, nil
}

func (b *tailBuffer) String() string {
	if b.dropped {
		return string(b.head) + "\n...[truncated]...\n" + string(b.tail)
	}
	return string(b.head) + string(b.tail)
}
