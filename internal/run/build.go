// Package run builds the worker from the repository's current working tree and drives worker processes.
package run

import (
	"bytes"
	"fmt"
	"os"
	"os/exec"
	"path/filepath"
	"strings"
)

// VerifDir is where the framework's sources live.
func VerifDir() string {
	if d := os.Getenv("VERIF_DIR"); d != "" {
		return d
	}
	return "/verif"
}

// RepoDir is the tree under test: /repo unless VERIF_REPO points somewhere else (used only to try the
// checks against scratch copies holding seeded changes; registered commands always use /repo).
func RepoDir() string {
	if d := os.Getenv("VERIF_REPO"); d != "" {
		return d
	}
	return "/repo"
}

func goEnv() []string {
	env := os.Environ()
	env = append(env, "GOFLAGS=-mod=mod", "GOPROXY=off", "GOSUMDB=off", "GOTOOLCHAIN=local")
	return env
}

// Worker is a built worker binary.
type Worker struct {
	Bin      string
	Dir      string // private temp dir holding the binary (removed by Cleanup)
	Hooks    bool   // built with -tags verif
	Race     bool
	BuildLog string
}

func (w *Worker) Cleanup() {
	if w != nil && w.Dir != "" {
		os.RemoveAll(w.Dir)
	}
}

// BuildWorker compiles cmd/vworker against RepoDir(). It first tries with the verif tag; if that build
// fails (the tree under test may have been edited so that the hook files no longer compile) it falls back
// to the hook-free build. A failure of both is returned as an error: the tree does not compile.
func BuildWorker(race bool) (*Worker, error) {
	dir, err := os.MkdirTemp("", "vcheck-build-")
	if err != nil {
		return nil, err
	}
	w := &Worker{Dir: dir, Bin: filepath.Join(dir, "vworker"), Race: race}
	vd := VerifDir()
	mod, err := os.ReadFile(filepath.Join(vd, "go.mod"))
	if err != nil {
		return nil, err
	}
	repo := RepoDir()
	modText := strings.Replace(string(mod), "=> /repo", "=> "+repo, 1)
	if err := os.WriteFile(filepath.Join(dir, "go.mod"), []byte(modText), 0o644); err != nil {
		return nil, err
	}
	sum, err := os.ReadFile(filepath.Join(repo, "go.sum"))
	if err != nil {
		sum, _ = os.ReadFile(filepath.Join(vd, "go.sum"))
	}
	if err := os.WriteFile(filepath.Join(dir, "go.sum"), sum, 0o644); err != nil {
		return nil, err
	}
	build := func(tags bool) error {
		args := []string{"build", "-modfile=" + filepath.Join(dir, "go.mod")}
		if tags {
			args = append(args, "-tags", "verif")
		}
		if race {
			args = append(args, "-race")
		}
		args = append(args, "-o", w.Bin, "./cmd/vworker")
		cmd := exec.Command("go", args...)
		cmd.Dir = vd
		cmd.Env = goEnv()
		var out bytes.Buffer
		cmd.Stdout, cmd.Stderr = &out, &out
		err := cmd.Run()
		w.BuildLog += out.String()
		return err
	}
	if err := build(true); err == nil {
		w.Hooks = true
		return w, nil
	}
	if err := build(false); err != nil {
		w.Cleanup()
		return nil, fmt.Errorf("worker does not build against %s: %v\n%s", repo, err, w.BuildLog)
	}
	return w, nil
}
