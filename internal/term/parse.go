package term

import (
	"fmt"
	"strconv"
	"strings"
	"unicode"
)

// A small reader for the controller's own corpora (classic programs, ISO examples, grammars). It knows the
// standard operator table only, and is never used to judge the engine's reader: it just saves writing
// fixed programs as Go constructor calls. Variables are numbered per clause from VarBase upwards.

type opDef struct {
	pri int
	typ string
}

var infixOps = map[string]opDef{
	":-": {1200, "xfx"}, "-->": {1200, "xfx"}, ";": {1100, "xfy"}, "|": {1100, "xfy"}, "->": {1050, "xfy"}, ",": {1000, "xfy"},
	"=": {700, "xfx"}, "\\=": {700, "xfx"}, "==": {700, "xfx"}, "\\==": {700, "xfx"}, "@<": {700, "xfx"}, "@=<": {700, "xfx"},
	"@>": {700, "xfx"}, "@>=": {700, "xfx"}, "=..": {700, "xfx"}, "is": {700, "xfx"}, "=:=": {700, "xfx"}, "=\\=": {700, "xfx"},
	"<": {700, "xfx"}, "=<": {700, "xfx"}, ">": {700, "xfx"}, ">=": {700, "xfx"}, ":": {600, "xfy"},
	"+": {500, "yfx"}, "-": {500, "yfx"}, "/\\": {500, "yfx"}, "\\/": {500, "yfx"},
	"*": {400, "yfx"}, "/": {400, "yfx"}, "//": {400, "yfx"}, "rem": {400, "yfx"}, "mod": {400, "yfx"}, "div": {400, "yfx"},
	"<<": {400, "yfx"}, ">>": {400, "yfx"}, "**": {200, "xfx"}, "^": {200, "xfy"},
}

var prefixOps = map[string]opDef{
	":-": {1200, "fx"}, "?-": {1200, "fx"}, "\\+": {900, "fy"}, "-": {200, "fy"}, "+": {200, "fy"}, "\\": {200, "fy"},
}

type tok struct {
	kind string // atom qatom var int punct end str
	s    string
	pre  bool // preceded by layout
}

type reader struct {
	src   []rune
	pos   int
	toks  []tok
	i     int
	vars  map[string]int64
	next  int64
	names []string
}

const symch = "+-*/\\^<>=~:.?@#&$"

func lex(src string) ([]tok, error) {
	r := []rune(src)
	var out []tok
	i := 0
	for i < len(r) {
		pre := false
		for i < len(r) {
			if unicode.IsSpace(r[i]) {
				i++
				pre = true
			} else if r[i] == '%' {
				for i < len(r) && r[i] != '\n' {
					i++
				}
				pre = true
			} else if r[i] == '/' && i+1 < len(r) && r[i+1] == '*' {
				i += 2
				for i+1 < len(r) && !(r[i] == '*' && r[i+1] == '/') {
					i++
				}
				i += 2
				pre = true
			} else {
				break
			}
		}
		if i >= len(r) {
			break
		}
		c := r[i]
		switch {
		case c == '.' && (i+1 >= len(r) || unicode.IsSpace(r[i+1]) || r[i+1] == '%'):
			out = append(out, tok{"end", ".", pre})
			i++
		case unicode.IsDigit(c):
			j := i
			for j < len(r) && unicode.IsDigit(r[j]) {
				j++
			}
			out = append(out, tok{"int", string(r[i:j]), pre})
			i = j
		case c == '_' || unicode.IsUpper(c):
			j := i
			for j < len(r) && (r[j] == '_' || unicode.IsLetter(r[j]) || unicode.IsDigit(r[j])) {
				j++
			}
			out = append(out, tok{"var", string(r[i:j]), pre})
			i = j
		case unicode.IsLower(c):
			j := i
			for j < len(r) && (r[j] == '_' || unicode.IsLetter(r[j]) || unicode.IsDigit(r[j])) {
				j++
			}
			out = append(out, tok{"atom", string(r[i:j]), pre})
			i = j
		case c == '\'' || c == '"':
			j := i + 1
			var sb strings.Builder
			for {
				if j >= len(r) {
					return nil, fmt.Errorf("unterminated quote")
				}
				if r[j] == c {
					if j+1 < len(r) && r[j+1] == c {
						sb.WriteRune(c)
						j += 2
						continue
					}
					break
				}
				if r[j] == '\\' && j+1 < len(r) {
					switch r[j+1] {
					case 'n':
						sb.WriteRune('\n')
					case 't':
						sb.WriteRune('\t')
					case '\\', '\'', '"':
						sb.WriteRune(r[j+1])
					default:
						return nil, fmt.Errorf("unsupported escape")
					}
					j += 2
					continue
				}
				sb.WriteRune(r[j])
				j++
			}
			k := "qatom"
			if c == '"' {
				k = "str"
			}
			out = append(out, tok{k, sb.String(), pre})
			i = j + 1
		case strings.ContainsRune("()[]{},|", c):
			out = append(out, tok{"punct", string(c), pre})
			i++
		case c == '!' || c == ';':
			out = append(out, tok{"atom", string(c), pre})
			i++
		case strings.ContainsRune(symch, c):
			j := i
			for j < len(r) && strings.ContainsRune(symch, r[j]) {
				j++
			}
			out = append(out, tok{"atom", string(r[i:j]), pre})
			i = j
		default:
			return nil, fmt.Errorf("unexpected character %q", c)
		}
	}
	return out, nil
}

// ParseProgram reads a sequence of clauses. Variables of each clause are numbered from 0.
func ParseProgram(src string) ([]*Term, error) {
	toks, err := lex(src)
	if err != nil {
		return nil, err
	}
	rd := &reader{toks: toks}
	var out []*Term
	for rd.i < len(rd.toks) {
		rd.vars = map[string]int64{}
		rd.next = 0
		t, err := rd.parse(1200)
		if err != nil {
			return nil, err
		}
		if rd.i >= len(rd.toks) || rd.toks[rd.i].kind != "end" {
			return nil, fmt.Errorf("expected end at token %d (%v)", rd.i, rd.peek())
		}
		rd.i++
		out = append(out, t)
	}
	return out, nil
}

// ParseTerm reads one term (with or without the final full stop) and returns the variable names in order
// of their numbering (variable i is names[i]).
func ParseTerm(src string) (*Term, []string, error) {
	toks, err := lex(src)
	if err != nil {
		return nil, nil, err
	}
	rd := &reader{toks: toks, vars: map[string]int64{}}
	t, err := rd.parse(1200)
	if err != nil {
		return nil, nil, err
	}
	if rd.i < len(rd.toks) && rd.toks[rd.i].kind == "end" {
		rd.i++
	}
	if rd.i != len(rd.toks) {
		return nil, nil, fmt.Errorf("trailing tokens at %d (%v)", rd.i, rd.peek())
	}
	return t, rd.names, nil
}

// MustParse is ParseTerm for fixed corpora.
func MustParse(src string) *Term {
	t, _, err := ParseTerm(src)
	if err != nil {
		panic(fmt.Sprintf("term.MustParse(%q): %v", src, err))
	}
	return t
}

func MustProgram(src string) []*Term {
	p, err := ParseProgram(src)
	if err != nil {
		panic(fmt.Sprintf("term.MustProgram: %v\n%s", err, src))
	}
	return p
}

func (rd *reader) peek() tok {
	if rd.i < len(rd.toks) {
		return rd.toks[rd.i]
	}
	return tok{kind: "eof"}
}

func (rd *reader) isTermStart() bool {
	t := rd.peek()
	switch t.kind {
	case "eof", "end":
		return false
	case "punct":
		return t.s == "(" || t.s == "[" || t.s == "{"
	case "atom":
		if _, ok := infixOps[t.s]; ok {
			if _, pre := prefixOps[t.s]; !pre {
				return false
			}
		}
	}
	return true
}

func (rd *reader) parse(max int) (*Term, error) {
	left, lp, err := rd.primary(max)
	if err != nil {
		return nil, err
	}
	for {
		t := rd.peek()
		var name string
		switch {
		case t.kind == "atom":
			name = t.s
		case t.kind == "punct" && (t.s == "," || t.s == "|"):
			name = t.s
		default:
			return left, nil
		}
		op, ok := infixOps[name]
		if !ok || op.pri > max {
			return left, nil
		}
		la, ra := op.pri-1, op.pri-1
		if op.typ == "yfx" {
			la = op.pri
		}
		if op.typ == "xfy" {
			ra = op.pri
		}
		if lp > la {
			return left, nil
		}
		rd.i++
		right, err := rd.parse(ra)
		if err != nil {
			return nil, err
		}
		if name == "|" {
			name = ";"
		}
		left = C(name, left, right)
		lp = op.pri
	}
}

func (rd *reader) primary(max int) (*Term, int, error) {
	t := rd.peek()
	rd.i++
	switch t.kind {
	case "int":
		n, err := strconv.ParseInt(t.s, 10, 64)
		if err != nil {
			return nil, 0, err
		}
		return I(n), 0, nil
	case "var":
		if t.s == "_" {
			v := V(rd.next)
			rd.next++
			rd.names = append(rd.names, "_")
			return v, 0, nil
		}
		id, ok := rd.vars[t.s]
		if !ok {
			id = rd.next
			rd.next++
			rd.vars[t.s] = id
			rd.names = append(rd.names, t.s)
		}
		return V(id), 0, nil
	case "str":
		return Codes(t.s), 0, nil
	case "punct":
		switch t.s {
		case "(":
			x, err := rd.parse(1200)
			if err != nil {
				return nil, 0, err
			}
			if p := rd.peek(); p.kind != "punct" || p.s != ")" {
				return nil, 0, fmt.Errorf("expected ) at %d", rd.i)
			}
			rd.i++
			return x, 0, nil
		case "[":
			if p := rd.peek(); p.kind == "punct" && p.s == "]" {
				rd.i++
				return rd.afterAtom("[]", max)
			}
			var es []*Term
			tail := Nil
			for {
				e, err := rd.parse(999)
				if err != nil {
					return nil, 0, err
				}
				es = append(es, e)
				p := rd.peek()
				rd.i++
				if p.kind == "punct" && p.s == "," {
					continue
				}
				if p.kind == "punct" && p.s == "|" {
					tl, err := rd.parse(999)
					if err != nil {
						return nil, 0, err
					}
					tail = tl
					p = rd.peek()
					rd.i++
				}
				if p.kind == "punct" && p.s == "]" {
					break
				}
				return nil, 0, fmt.Errorf("bad list at %d", rd.i)
			}
			return PL(tail, es...), 0, nil
		case "{":
			if p := rd.peek(); p.kind == "punct" && p.s == "}" {
				rd.i++
				return rd.afterAtom("{}", max)
			}
			x, err := rd.parse(1200)
			if err != nil {
				return nil, 0, err
			}
			if p := rd.peek(); p.kind != "punct" || p.s != "}" {
				return nil, 0, fmt.Errorf("expected } at %d", rd.i)
			}
			rd.i++
			return C("{}", x), 0, nil
		}
		return nil, 0, fmt.Errorf("unexpected %q at %d", t.s, rd.i)
	case "atom", "qatom":
		return rd.afterAtomTok(t, max)
	}
	return nil, 0, fmt.Errorf("unexpected token %v at %d", t, rd.i)
}

func (rd *reader) afterAtom(name string, max int) (*Term, int, error) {
	return rd.afterAtomTok(tok{kind: "qatom", s: name}, max)
}

func (rd *reader) afterAtomTok(t tok, max int) (*Term, int, error) {
	name := t.s
	// functional notation
	if p := rd.peek(); p.kind == "punct" && p.s == "(" && !p.pre {
		rd.i++
		var args []*Term
		for {
			a, err := rd.parse(999)
			if err != nil {
				return nil, 0, err
			}
			args = append(args, a)
			p := rd.peek()
			rd.i++
			if p.kind == "punct" && p.s == "," {
				continue
			}
			if p.kind == "punct" && p.s == ")" {
				break
			}
			return nil, 0, fmt.Errorf("bad argument list at %d", rd.i)
		}
		return C(name, args...), 0, nil
	}
	if t.kind == "atom" {
		if name == "-" {
			if p := rd.peek(); p.kind == "int" && !p.pre {
				rd.i++
				n, err := strconv.ParseInt("-"+p.s, 10, 64)
				if err != nil {
					return nil, 0, err
				}
				return I(n), 0, nil
			}
		}
		if op, ok := prefixOps[name]; ok && rd.isTermStart() {
			pri := op.pri
			if pri > max {
				pri = 999
			}
			am := pri
			if op.typ == "fx" {
				am = pri - 1
			}
			save := rd.i
			a, err := rd.parse(am)
			if err == nil {
				return C(name, a), pri, nil
			}
			rd.i = save
		}
		if op, ok := infixOps[name]; ok {
			_ = op
			return A(name), 0, nil
		}
	}
	return A(name), 0, nil
}
