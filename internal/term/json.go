package term

import (
	"encoding/json"
	"fmt"
	"math"
	"strconv"
)

// wire is the JSON form of a term (see DESIGN.md Appendix A).
type wire struct {
	A *string `json:"a,omitempty"`
	I *string `json:"i,omitempty"`
	F *string `json:"f,omitempty"`
	V *int64  `json:"v,omitempty"`
	C *string `json:"c,omitempty"`
	X []*Term `json:"x,omitempty"`
	L []*Term `json:"l,omitempty"`
	T *Term   `json:"t,omitempty"`
	R string  `json:"r,omitempty"`
	S *int64  `json:"s,omitempty"`
	O *string `json:"o,omitempty"`
}

func (t *Term) MarshalJSON() ([]byte, error) {
	var w wire
	switch t.K {
	case KAtom:
		w.A = &t.S
	case KInt:
		s := strconv.FormatInt(t.I, 10)
		w.I = &s
	case KFloat:
		s := fmt.Sprintf("%016x", math.Float64bits(t.F))
		w.F = &s
	case KVar:
		w.V = &t.I
	case KStream:
		w.S = &t.I
	case KOther:
		w.O = &t.S
	case KCmp:
		if t.IsCmp(".", 2) {
			// one run of cells with the same representation hint
			rep := t.Rep
			cur := t
			for {
				w.L = append(w.L, cur.Args[0])
				next := cur.Args[1]
				if next.IsCmp(".", 2) && (next.Rep == "" || next.Rep == rep) {
					cur = next
					continue
				}
				if !next.IsAtom("[]") {
					w.T = next
				}
				break
			}
			w.R = rep
		} else {
			w.C = &t.S
			w.X = t.Args
		}
	}
	return json.Marshal(&w)
}

func (t *Term) UnmarshalJSON(b []byte) error {
	var w wire
	if err := json.Unmarshal(b, &w); err != nil {
		return err
	}
	switch {
	case w.A != nil:
		*t = Term{K: KAtom, S: *w.A}
	case w.I != nil:
		n, err := strconv.ParseInt(*w.I, 10, 64)
		if err != nil {
			return err
		}
		*t = Term{K: KInt, I: n}
	case w.F != nil:
		u, err := strconv.ParseUint(*w.F, 16, 64)
		if err != nil {
			return err
		}
		*t = Term{K: KFloat, F: math.Float64frombits(u)}
	case w.V != nil:
		*t = Term{K: KVar, I: *w.V}
	case w.S != nil:
		*t = Term{K: KStream, I: *w.S}
	case w.O != nil:
		*t = Term{K: KOther, S: *w.O}
	case w.C != nil:
		*t = Term{K: KCmp, S: *w.C, Args: w.X}
		if len(w.X) == 0 {
			*t = Term{K: KAtom, S: *w.C}
		}
	case w.L != nil:
		tail := Nil
		if w.T != nil {
			tail = w.T
		}
		l := PL(tail, w.L...)
		*t = *l
		t.Rep = w.R
	default:
		return fmt.Errorf("term: empty wire form %s", b)
	}
	return nil
}

// JSON renders t as its wire form (for samples, hashes and replay files).
func JSON(t *Term) string {
	b, _ := json.Marshal(t)
	return string(b)
}
