// Package term is the controller's own term representation. It shares no code with the engine under
// test: structural equality, variance, unification and the standard order used by the oracles live here.
package term

import (
	"fmt"
	"math"
	"sort"
	"strconv"
	"strings"
)

type Kind uint8

const (
	KVar Kind = iota
	KFloat
	KInt
	KAtom
	KCmp
	KStream // opaque stream handle (reported by the worker, never generated)
	KOther  // any other Go term type (reported, never generated)
)

// Term is an immutable tree. Lists are nested '.'/2 compounds; Rep (on the first cell of a run of cells)
// tells the worker which engine representation to build for that run: "" or "slice" (Go list slice /
// partial), "cons" (generic './2 compounds), "chars", "codes" (string-backed, only when the elements allow).
type Term struct {
	K    Kind
	S    string // atom text, functor name, or description for KOther
	I    int64  // integer value, variable id, stream id
	F    float64
	Args []*Term
	Rep  string
}

func A(s string) *Term  { return &Term{K: KAtom, S: s} }
func I(n int64) *Term   { return &Term{K: KInt, I: n} }
func F(f float64) *Term { return &Term{K: KFloat, F: f} }
func V(id int64) *Term  { return &Term{K: KVar, I: id} }
func C(name string, args ...*Term) *Term {
	if len(args) == 0 {
		return A(name)
	}
	return &Term{K: KCmp, S: name, Args: args}
}

var Nil = A("[]")

func Cons(h, t *Term) *Term { return &Term{K: KCmp, S: ".", Args: []*Term{h, t}} }

// L builds a proper list.
func L(elems ...*Term) *Term { return PL(Nil, elems...) }

// PL builds elems followed by tail.
func PL(tail *Term, elems ...*Term) *Term {
	t := tail
	for i := len(elems) - 1; i >= 0; i-- {
		t = Cons(elems[i], t)
	}
	return t
}

// WithRep returns a copy of the list cell t (and shares the rest) with the representation hint set.
func WithRep(t *Term, rep string) *Term {
	if t.K != KCmp {
		return t
	}
	c := *t
	c.Rep = rep
	return &c
}

// Chars builds the list of one-character atoms of s.
func Chars(s string) *Term {
	var es []*Term
	for _, r := range s {
		es = append(es, A(string(r)))
	}
	return L(es...)
}

// Codes builds the list of code points of s.
func Codes(s string) *Term {
	var es []*Term
	for _, r := range s {
		es = append(es, I(int64(r)))
	}
	return L(es...)
}

func (t *Term) IsAtom(s string) bool { return t.K == KAtom && t.S == s }
func (t *Term) IsCmp(name string, arity int) bool {
	return t.K == KCmp && t.S == name && len(t.Args) == arity
}
func (t *Term) IsCallable() bool { return t.K == KAtom || t.K == KCmp }
func (t *Term) IsList() bool     { return t.IsCmp(".", 2) }

// ListElems splits a list term into elements and the final tail (Nil for a proper list).
func ListElems(t *Term) ([]*Term, *Term) {
	var es []*Term
	for t.IsCmp(".", 2) {
		es = append(es, t.Args[0])
		t = t.Args[1]
	}
	return es, t
}

// Vars appends the variable ids of t in first-occurrence order (depth-first, left to right).
func Vars(t *Term, seen map[int64]bool, out []int64) []int64 {
	// iterative along the list spine to keep stack use small
	for {
		switch t.K {
		case KVar:
			if !seen[t.I] {
				seen[t.I] = true
				out = append(out, t.I)
			}
			return out
		case KCmp:
			n := len(t.Args)
			for i := 0; i < n-1; i++ {
				out = Vars(t.Args[i], seen, out)
			}
			t = t.Args[n-1]
		default:
			return out
		}
	}
}

// VarsOf returns the variables of the terms in first-occurrence order.
func VarsOf(ts ...*Term) []int64 {
	seen := map[int64]bool{}
	var out []int64
	for _, t := range ts {
		out = Vars(t, seen, out)
	}
	return out
}

// Map applies f to every variable; other nodes are rebuilt only when needed.
func Map(t *Term, f func(id int64) *Term) *Term {
	switch t.K {
	case KVar:
		return f(t.I)
	case KCmp:
		var args []*Term
		for i, a := range t.Args {
			b := Map(a, f)
			if b != a && args == nil {
				args = make([]*Term, len(t.Args))
				copy(args, t.Args[:i])
			}
			if args != nil {
				args[i] = b
			}
		}
		if args == nil {
			return t
		}
		return &Term{K: KCmp, S: t.S, Args: args, Rep: t.Rep}
	default:
		return t
	}
}

// Canon renames the variables of ts to 0,1,2,… in first-occurrence order over the whole slice
// (sharing between the terms is preserved).
func Canon(ts ...*Term) []*Term {
	m := map[int64]int64{}
	out := make([]*Term, len(ts))
	for i, t := range ts {
		out[i] = Map(t, func(id int64) *Term {
			n, ok := m[id]
			if !ok {
				n = int64(len(m))
				m[id] = n
			}
			return V(n)
		})
	}
	return out
}

// Equal is structural identity (variables by id, floats by bit pattern).
func Equal(a, b *Term) bool {
	for {
		if a == b {
			return true
		}
		if a.K != b.K {
			return false
		}
		switch a.K {
		case KVar, KInt, KStream:
			return a.I == b.I
		case KFloat:
			return math.Float64bits(a.F) == math.Float64bits(b.F)
		case KAtom, KOther:
			return a.S == b.S
		case KCmp:
			if a.S != b.S || len(a.Args) != len(b.Args) {
				return false
			}
			n := len(a.Args)
			for i := 0; i < n-1; i++ {
				if !Equal(a.Args[i], b.Args[i]) {
					return false
				}
			}
			a, b = a.Args[n-1], b.Args[n-1]
		}
	}
}

// Variant reports whether a and b are equal up to a bijective renaming of variables.
func Variant(a, b *Term) bool {
	return variant(a, b, map[int64]int64{}, map[int64]int64{})
}

// VariantAll is Variant over two equally long tuples with one shared renaming.
func VariantAll(as, bs []*Term) bool {
	if len(as) != len(bs) {
		return false
	}
	f, g := map[int64]int64{}, map[int64]int64{}
	for i := range as {
		if !variant(as[i], bs[i], f, g) {
			return false
		}
	}
	return true
}

func variant(a, b *Term, f, g map[int64]int64) bool {
	for {
		if a.K != b.K {
			return false
		}
		switch a.K {
		case KVar:
			x, ok1 := f[a.I]
			y, ok2 := g[b.I]
			if !ok1 && !ok2 {
				f[a.I] = b.I
				g[b.I] = a.I
				return true
			}
			return ok1 && ok2 && x == b.I && y == a.I
		case KInt, KStream:
			return a.I == b.I
		case KFloat:
			return math.Float64bits(a.F) == math.Float64bits(b.F)
		case KAtom, KOther:
			return a.S == b.S
		case KCmp:
			if a.S != b.S || len(a.Args) != len(b.Args) {
				return false
			}
			n := len(a.Args)
			for i := 0; i < n-1; i++ {
				if !variant(a.Args[i], b.Args[i], f, g) {
					return false
				}
			}
			a, b = a.Args[n-1], b.Args[n-1]
		}
	}
}

// Size is the number of nodes.
func Size(t *Term) int {
	n := 0
	for {
		n++
		if t.K != KCmp {
			return n
		}
		for i := 0; i < len(t.Args)-1; i++ {
			n += Size(t.Args[i])
		}
		t = t.Args[len(t.Args)-1]
	}
}

// ---------------------------------------------------------------------------------------------------
// Substitutions, unification (Robinson with optional occurs check), used by the oracles.

type Subst map[int64]*Term

func (s Subst) Walk(t *Term) *Term {
	for t.K == KVar {
		b, ok := s[t.I]
		if !ok {
			return t
		}
		t = b
	}
	return t
}

// Apply resolves t completely under s.
func (s Subst) Apply(t *Term) *Term {
	t = s.Walk(t)
	if t.K != KCmp {
		return t
	}
	var args []*Term
	for i, a := range t.Args {
		b := s.Apply(a)
		if b != a && args == nil {
			args = make([]*Term, len(t.Args))
			copy(args, t.Args[:i])
		}
		if args != nil {
			args[i] = b
		}
	}
	if args == nil {
		return t
	}
	return &Term{K: KCmp, S: t.S, Args: args, Rep: t.Rep}
}

func (s Subst) occurs(id int64, t *Term) bool {
	t = s.Walk(t)
	switch t.K {
	case KVar:
		return t.I == id
	case KCmp:
		for _, a := range t.Args {
			if s.occurs(id, a) {
				return true
			}
		}
	}
	return false
}

// UnifyResult of Unify.
type UnifyResult int

const (
	NotUnifiable UnifyResult = iota
	Unifiable
	STO // unifiable only by creating a cyclic term ("subject to occurs check")
)

// Unify computes an mgu of a and b. The result STO means the pair is subject to occurs check (no finite
// unifier on the path Robinson's algorithm takes); the substitution is then meaningless.
func Unify(a, b *Term) (Subst, UnifyResult) {
	s := Subst{}
	sto := false
	var u func(a, b *Term) bool
	u = func(a, b *Term) bool {
		a, b = s.Walk(a), s.Walk(b)
		if a.K == KVar {
			if b.K == KVar && a.I == b.I {
				return true
			}
			if s.occurs(a.I, b) {
				sto = true
				return false
			}
			s[a.I] = b
			return true
		}
		if b.K == KVar {
			if s.occurs(b.I, a) {
				sto = true
				return false
			}
			s[b.I] = a
			return true
		}
		if a.K != b.K {
			return false
		}
		switch a.K {
		case KInt, KStream:
			return a.I == b.I
		case KFloat:
			return math.Float64bits(a.F) == math.Float64bits(b.F)
		case KAtom, KOther:
			return a.S == b.S
		case KCmp:
			if a.S != b.S || len(a.Args) != len(b.Args) {
				return false
			}
			for i := range a.Args {
				if !u(a.Args[i], b.Args[i]) {
					return false
				}
			}
			return true
		}
		return false
	}
	ok := u(a, b)
	if sto {
		return nil, STO
	}
	if !ok {
		return nil, NotUnifiable
	}
	return s, Unifiable
}

// ---------------------------------------------------------------------------------------------------
// Standard order of terms (ISO 7.2): Var < Float < Integer < Atom < Compound.

// Compare returns -1, 0, 1 and hinged=true when the result depended on the relative order of two distinct
// variables (which the implementation is free to choose); variables are then ordered by id.
func Compare(a, b *Term) (c int, hinged bool) {
	for {
		ra, rb := rank(a), rank(b)
		if ra != rb {
			return sgn(ra - rb), false
		}
		switch a.K {
		case KVar:
			if a.I == b.I {
				return 0, false
			}
			if a.I < b.I {
				return -1, true
			}
			return 1, true
		case KFloat:
			switch {
			case a.F < b.F:
				return -1, false
			case a.F > b.F:
				return 1, false
			}
			return 0, false
		case KInt, KStream:
			switch {
			case a.I < b.I:
				return -1, false
			case a.I > b.I:
				return 1, false
			}
			return 0, false
		case KAtom, KOther:
			return strings.Compare(a.S, b.S), false
		case KCmp:
			if len(a.Args) != len(b.Args) {
				return sgn(len(a.Args) - len(b.Args)), false
			}
			if a.S != b.S {
				return strings.Compare(a.S, b.S), false
			}
			n := len(a.Args)
			for i := 0; i < n-1; i++ {
				if c, h := Compare(a.Args[i], b.Args[i]); c != 0 {
					return c, h
				}
			}
			a, b = a.Args[n-1], b.Args[n-1]
		}
	}
}

func rank(t *Term) int {
	switch t.K {
	case KVar:
		return 0
	case KFloat:
		return 1
	case KInt:
		return 2
	case KAtom:
		return 3
	case KStream, KOther:
		return 4
	default:
		return 5
	}
}

func sgn(x int) int {
	switch {
	case x < 0:
		return -1
	case x > 0:
		return 1
	}
	return 0
}

// SortUnique sorts by standard order and removes duplicates (Equal).
func SortUnique(ts []*Term) []*Term {
	out := append([]*Term(nil), ts...)
	sort.SliceStable(out, func(i, j int) bool { c, _ := Compare(out[i], out[j]); return c < 0 })
	w := 0
	for i, t := range out {
		if i > 0 {
			if c, _ := Compare(out[w-1], t); c == 0 {
				continue
			}
		}
		out[w] = t
		w++
	}
	return out[:w]
}

// ---------------------------------------------------------------------------------------------------
// Text. String() is a debugging/sample rendering AND a safe canonical source form: every compound in
// functional notation, every atom that is not a plain lower-case identifier quoted, lists in brackets,
// variables as _G<n>. It is accepted by any ISO reader under any operator table (no operator syntax used
// except for the comma-free forms), which is what the generators rely on when they need program text.

func (t *Term) String() string {
	var sb strings.Builder
	write(&sb, t, nil)
	return sb.String()
}

// Text is String with a caller-chosen rendering of variables.
func Text(t *Term, varName func(id int64) string) string {
	var sb strings.Builder
	write(&sb, t, varName)
	return sb.String()
}

func write(sb *strings.Builder, t *Term, vn func(id int64) string) {
	switch t.K {
	case KVar:
		if vn != nil {
			sb.WriteString(vn(t.I))
		} else {
			fmt.Fprintf(sb, "_G%d", t.I)
		}
	case KInt:
		// "-1" is read as the integer in argument position; generators only use functional notation.
		sb.WriteString(strconv.FormatInt(t.I, 10))
	case KFloat:
		sb.WriteString(FloatText(t.F))
	case KAtom:
		sb.WriteString(AtomText(t.S))
	case KStream:
		fmt.Fprintf(sb, "'$stream'(%d)", t.I)
	case KOther:
		fmt.Fprintf(sb, "'$other'(%s)", AtomText(t.S))
	case KCmp:
		if t.IsCmp(".", 2) && t.Rep == "string" {
			// a double-quoted literal (the reader's meaning depends on the double_quotes flag)
			if txt, ok := plainString(t); ok {
				sb.WriteByte('"')
				sb.WriteString(txt)
				sb.WriteByte('"')
				return
			}
		}
		if t.IsCmp(".", 2) {
			sb.WriteByte('[')
			first := true
			for t.IsCmp(".", 2) {
				if !first {
					sb.WriteByte(',')
				}
				first = false
				write(sb, t.Args[0], vn)
				t = t.Args[1]
			}
			if !t.IsAtom("[]") {
				sb.WriteByte('|')
				write(sb, t, vn)
			}
			sb.WriteByte(']')
			return
		}
		sb.WriteString(AtomText(t.S))
		sb.WriteByte('(')
		for i, a := range t.Args {
			if i > 0 {
				sb.WriteByte(',')
			}
			write(sb, a, vn)
		}
		sb.WriteByte(')')
	}
}

// FloatText renders a float so that an exact decimal→binary conversion reads the same double back.
func FloatText(f float64) string {
	s := strconv.FormatFloat(f, 'e', -1, 64) // d.ddde±dd
	mant, exp, _ := strings.Cut(s, "e")
	if !strings.Contains(mant, ".") {
		mant += ".0"
	}
	if exp == "+00" {
		return mant
	}
	return mant + "e" + exp
}

// AtomText quotes an atom unless it is a plain identifier [a-z][A-Za-z0-9_]*, [] or {}.
func AtomText(s string) string {
	if s == "[]" || s == "{}" || s == "!" || s == ";" {
		return s
	}
	plain := s != ""
	for i, r := range s {
		switch {
		case r >= 'a' && r <= 'z':
		case i > 0 && (r >= 'A' && r <= 'Z' || r >= '0' && r <= '9' || r == '_'):
		default:
			plain = false
		}
	}
	if plain {
		return s
	}
	var sb strings.Builder
	sb.WriteByte('\'')
	for _, r := range s {
		switch {
		case r == '\'':
			sb.WriteString(`\'`)
		case r == '\\':
			sb.WriteString(`\\`)
		case r == '\n':
			sb.WriteString(`\n`)
		case r == '\t':
			sb.WriteString(`\t`)
		case r < 0x20 || r == 0x7f || r > 0x7e:
			fmt.Fprintf(&sb, `\x%x\`, r)
		default:
			sb.WriteRune(r)
		}
	}
	sb.WriteByte('\'')
	return sb.String()
}

// plainString returns the text of a proper list of one-character atoms made of letters and digits only.
func plainString(t *Term) (string, bool) {
	var sb strings.Builder
	for t.IsCmp(".", 2) {
		e := t.Args[0]
		if e.K != KAtom || len(e.S) != 1 || !(e.S[0] >= 'a' && e.S[0] <= 'z' || e.S[0] >= '0' && e.S[0] <= '9') {
			return "", false
		}
		sb.WriteString(e.S)
		t = t.Args[1]
	}
	return sb.String(), t.IsAtom("[]") && sb.Len() > 0
}
