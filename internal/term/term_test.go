package term

import (
	"encoding/json"
	"testing"
)

func TestRoundTrip(t *testing.T) {
	x := C("f", A("a"), I(-3), F(1.5), V(7), L(A("x"), V(7)), PL(V(2), I(1)), WithRep(Chars("hé"), "chars"))
	b, err := json.Marshal(x)
	if err != nil {
		t.Fatal(err)
	}
	var y Term
	if err := json.Unmarshal(b, &y); err != nil {
		t.Fatal(err)
	}
	if !Equal(x, &y) {
		t.Fatalf("%s != %s (%s)", x, &y, b)
	}
	if y.Args[6].Rep != "chars" {
		t.Fatal("rep lost")
	}
}

func TestUnifyCompareVariant(t *testing.T) {
	s, r := Unify(C("f", V(1), A("b")), C("f", A("a"), V(2)))
	if r != Unifiable || !s.Apply(V(1)).IsAtom("a") || !s.Apply(V(2)).IsAtom("b") {
		t.Fatal("unify")
	}
	if _, r := Unify(V(1), C("f", V(1))); r != STO {
		t.Fatal("sto")
	}
	if _, r := Unify(C("f", A("a")), C("f", A("b"))); r != NotUnifiable {
		t.Fatal("nu")
	}
	if !Variant(C("g", V(1), V(2)), C("g", V(5), V(6))) || Variant(C("g", V(1), V(2)), C("g", V(5), V(5))) || Variant(C("g", V(1), V(1)), C("g", V(5), V(6))) {
		t.Fatal("variant")
	}
	order := []*Term{V(0), F(2.5), I(1), A("a"), A("b"), C("a", I(1)), C("b", I(0)), C("a", I(1), I(1))}
	for i := range order {
		for j := range order {
			c, _ := Compare(order[i], order[j])
			if c != sgn(i-j) {
				t.Fatalf("compare %s %s = %d", order[i], order[j], c)
			}
		}
	}
}
